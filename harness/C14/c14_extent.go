package patch

// C14 with the real function-extent scan (bytecode.GetFuncSize over the bundled decoder)
// on concrete code at a symbolic address: a function too short for the 13-byte jump is
// refused whatever follows it, and an accepted patch never changes a neighbour's bytes.

// mov eax,42; ret
var vShortFn = []byte{0xB8, 0x2A, 0x00, 0x00, 0x00, 0xC3}

// the neighbour: a function with the usual prologue, padded
var vNeighbour = []byte{
	0x49, 0x3B, 0x66, 0x10, 0x76, 0x1D, 0x55, 0x48, 0x89, 0xE5, 0xB8, 0x07, 0x00, 0x00, 0x00, 0x5D, 0xC3,
	0xCC, 0xCC, 0xCC, 0xCC, 0xCC, 0xCC, 0xCC, 0xCC, 0xCC, 0xCC, 0xCC, 0xCC, 0xCC, 0xCC, 0xCC,
	0x49, 0x3B, 0x66, 0x10, 0x76, 0x1D, 0x55, 0x48, 0x89, 0xE5, 0xC3, 0xCC, 0xCC, 0xCC, 0xCC, 0xCC,
	0xCC, 0xCC, 0xCC, 0xCC, 0xCC, 0xCC, 0xCC, 0xCC, 0xCC, 0xCC, 0xCC, 0xCC, 0xCC, 0xCC, 0xCC, 0xCC,
}

// what lies between the short function and its neighbour
var vGaps = [5][]byte{
	{},                             // nothing: the neighbour's prologue follows directly
	{0x06, 0x06},                   // bytes that do not decode in 64-bit mode
	{0xCC, 0xCC, 0xCC},             // too little padding
	{0xCC, 0xCC, 0xCC, 0xCC, 0xCC, 0xCC}, // 6 + 6 = 12 < 13
	{0xCC, 0xCC, 0xCC, 0xCC, 0xCC, 0xCC, 0xCC, 0xCC, 0xCC, 0xCC}, // ordinary padding to 16
}

func VC_C14_extent_short_function() {
	patches = make(map[uintptr]*patch)
	a := verifUintptr("addr")
	verifAssume(a >= 0x400000)
	verifAssume(a < 0x40000000)
	g := verifChoice("gap", 5)
	var code []byte
	code = append(code, vShortFn...)
	code = append(code, vGaps[g]...)
	own := len(code) // bytes that belong to the target (code + its padding)
	code = append(code, vNeighbour...)
	for i := 0; i < len(code); i++ {
		verifImgStore(a+uintptr(i), code[i])
	}
	mark := verifImgBytesWritten()
	gd, err := PtrTrampoline(a, vReplX, nil)
	if own < 13 {
		if g == 0 {
			// known finding F23: the scan recognises the start of the next function only by
			// the pre-register-ABI prologue bytes or after int3 padding
			verifAssertClass(err != nil, "C14.extent.too-short-is-refused", "F23")
		} else {
			verifAssert(err != nil, "C14.extent.too-short-is-refused")
		}
	}
	if err != nil {
		verifAssert(verifImgBytesWritten() == mark, "C14.extent.refusal-writes-nothing")
		verifReached("C14.extent.refused")
		return
	}
	gd.Apply()
	cls := ""
	if g == 0 {
		cls = "F23"
	}
	for i := mark; i < verifImgBytesWritten(); i++ {
		verifAssertClass(verifImgWriteAddr(i)-a < uintptr(own), "C14.extent.write-inside-own-extent", cls)
	}
	for i := own; i < len(code); i++ {
		verifAssertClass(verifImgLoad(a+uintptr(i)) == code[i], "C14.extent.neighbour-unchanged", cls)
	}
	verifReached("C14.extent.accepted")
}
