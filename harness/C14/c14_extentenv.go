package patch

// Environment of C14's extent unit: the real bytecode.GetFuncSize runs (no stub for it).

// mprotect(2) succeeds (linux/amd64); its arguments are the subject of the memory VCs.
//
//verif:stub syscall.Mprotect
func vStubMprotectExtent(b []byte, prot int) error { return nil }

func vReplX(i int) int { return i + 100 }
