package patch

// C14 (patch layer): installing/removing a mock writes only the fixed-length entry jump
// at the target's first byte; a function too short to hold the jump is refused before
// anything is written.

// VC_C14_refuse_and_window: PtrTrampoline + Apply + Unpatch on one target of arbitrary
// address and extent.
func VC_C14_refuse_and_window() {
	vReset()
	t := vNewTarget()
	snap := verifImgSnap()
	g, err := PtrTrampoline(t.addr, vReplA, nil)
	verifAssert(verifImgBytesWritten() == 0, "C14.install.nothing-written-before-apply")
	if t.size < 13 {
		verifAssert(err != nil, "C14.refuse.too-short-is-refused")
		verifReached("C14.refuse")
		return
	}
	if err != nil {
		// conservative refusals (size == 13, entry byte already 0x90) are allowed
		verifReached("C14.refuse.other")
		return
	}
	g.Apply()
	verifAssert(verifImgBytesWritten() == 13, "C14.apply.writes-13-bytes")
	vWrittenInside(0, t.addr, 13, "C14.apply.only-entry-window")
	verifAssert(13 <= t.size, "C14.apply.window-inside-function")
	mark := verifImgBytesWritten()
	g.Unpatch()
	vWrittenInside(mark, t.addr, 13, "C14.unpatch.only-entry-window")
	for k := 0; k < 13; k++ {
		verifAssert(verifImgLoad(t.addr+uintptr(k)) == verifImgAt(snap, t.addr+uintptr(k)), "C14.unpatch.restores-bytes")
	}
	verifReached("C14.window")
}

// a small function with the usual Go prologue (stack check with a rel8 JBE to the
// morestack block at the end, frame set-up) — 52 bytes
var vSmallFn = []byte{
	0x49, 0x3B, 0x66, 0x10, // 0x00 cmp rsp,[r14+0x10]
	0x76, 0x1D, // 0x04 jbe 0x23
	0x55,             // 0x06 push rbp
	0x48, 0x89, 0xE5, // 0x07 mov rbp,rsp
	0x48, 0x83, 0xEC, 0x10, // 0x0a sub rsp,0x10
	0x48, 0x8D, 0x40, 0x01, // 0x0e lea rax,[rax+1]
	0x48, 0x83, 0xC4, 0x10, // 0x12 add rsp,0x10
	0x5D, // 0x16 pop rbp
	0xC3, // 0x17 ret
	0xCC, 0xCC, 0xCC, 0xCC, 0xCC, 0xCC, 0xCC, 0xCC, 0xCC, 0xCC, 0xCC, // 0x18 padding
	0x48, 0x89, 0x44, 0x24, 0x08, // 0x23 mov [rsp+8],rax
	0xE8, 0x00, 0x10, 0x00, 0x00, // 0x28 call morestack
	0x48, 0x8B, 0x44, 0x24, 0x08, // 0x2d mov rax,[rsp+8]
	0xEB, 0xCC, // 0x32 jmp 0x00
}

func vPlaceholderFn(i int) int { return i }

// VC_C14_placeholder: installing a mock with an origin placeholder writes only inside the
// placeholder's own body [tramp, tramp+size), or refuses and writes nothing.
func VC_C14_placeholder() {
	vReset()
	o := vNewTarget()
	o.size = len(vSmallFn)
	for i := 0; i < len(vSmallFn); i++ {
		verifImgStore(o.addr+uintptr(i), vSmallFn[i])
	}
	tramp := verifFuncCode(vPlaceholderFn)
	tsize := verifInt("trampSize")
	verifAssume(tsize >= 0)
	verifAssume(tsize <= 96)
	vTargets[vNumTargets] = vTarget{addr: tramp, size: tsize}
	vNumTargets++
	// the two functions do not overlap
	verifAssume(tramp >= o.addr+64 || o.addr >= tramp+128)
	mark := verifImgBytesWritten()
	g, err := PtrTrampoline(o.addr, vReplA, vPlaceholderFn)
	if err != nil {
		verifAssert(verifImgBytesWritten() == mark, "C14.placeholder.refusal-writes-nothing")
		verifReached("C14.placeholder.refused")
		return
	}
	vWrittenInside(mark, tramp, tsize, "C14.placeholder.write-inside-body")
	verifAssert(g.FixOriginFunc() == tramp, "C14.placeholder.origin-entry")
	verifReached("C14.placeholder.installed")
}
