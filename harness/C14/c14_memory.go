package memory

import "syscall"

// C14 (memory layer): a write changes exactly its range, pages are writable when written,
// executable always, and read+execute afterwards.

var vPage int

//verif:stub syscall.Getpagesize
func vStubGetpagesize() int { return vPage }

type vProt struct {
	addr   uintptr
	length int
	prot   int
	writes int // image stores performed before this call
}

var vLog []vProt

// mprotect(2): succeeds on page-aligned ranges (linux/amd64); an unaligned address is
// EINVAL, which WriteTo turns into a panic.
//
//verif:stub syscall.Mprotect
func vStubMprotect(b []byte, prot int) error {
	a := verifSliceAddr(b)
	verifAssert(a%uintptr(vPage) == 0, "C14.mprotect.page-aligned")
	verifAssert(prot&syscall.PROT_EXEC != 0, "C14.mprotect.always-exec")
	vLog = append(vLog, vProt{addr: a, length: len(b), prot: prot, writes: verifImgWrites()})
	return nil
}

// vProtAt: protection of the page containing a after the log entries selected by upto
// (entries whose write stamp is <= upto), starting from read+execute.
func vProtAt(a uintptr, upto int) int {
	cur := syscall.PROT_READ | syscall.PROT_EXEC
	for i := 0; i < len(vLog); i++ {
		e := vLog[i]
		if e.writes <= upto && a >= e.addr && a-e.addr < uintptr(e.length) {
			cur = e.prot
		}
	}
	return cur
}

var vPages = [3]int{4096, 16384, 65536}

// vWrite: one WriteTo of a buffer whose length is lens[choice] at an arbitrary address.
func vWrite(page int, lens []int) {
	vPage = page
	vLog = nil
	n := lens[verifChoice("len", len(lens))]
	addr := verifUintptr("addr")
	verifAssume(addr >= uintptr(vPage))
	verifAssume(addr < (uintptr(1)<<47)-2*uintptr(vPage))
	data := verifBytes("data", n)
	w0 := verifImgWrites()
	b0 := verifImgBytesWritten()
	err := WriteTo(addr, data)
	verifAssert(err == nil, "C14.write.no-error")
	// exactly the range changes: the image after the call is the image before it with
	// stores at the logged addresses and nowhere else, so it suffices that every stored
	// byte address lies in [addr, addr+n)
	for i := b0; i < verifImgBytesWritten(); i++ {
		w := verifImgWriteAddr(i)
		// addr+n does not wrap (addr < 2^47), so w-addr < n is membership in [addr, addr+n)
		verifAssert(w-addr < uintptr(n), "C14.write.only-range")
	}
	for k := 0; k < n; k++ {
		verifAssert(verifImgLoad(addr+uintptr(k)) == data[k], "C14.write.lands-intact")
	}
	// protections: for an arbitrary byte q of the written range, its page was writable
	// (and executable) when the copy started, and is read+execute at the end
	if n > 0 {
		q := verifUintptr("q")
		verifAssume(q >= addr)
		verifAssume(q-addr < uintptr(n))
		atCopy := vProtAt(q, w0)
		verifAssert(atCopy&syscall.PROT_WRITE != 0, "C14.write.writable-when-written")
		verifAssert(atCopy&syscall.PROT_EXEC != 0, "C14.write.executable-when-written")
	}
	// for an arbitrary address anywhere: not left writable, still executable
	z := verifUintptr("z")
	fin := vProtAt(z, 1<<30)
	verifAssert(fin&syscall.PROT_WRITE == 0, "C14.write.no-page-left-writable")
	verifAssert(fin&syscall.PROT_EXEC != 0, "C14.write.pages-stay-executable")
	verifReached("C14.write")
}

func vRange(lo, hi int) []int {
	var l []int
	for i := lo; i <= hi; i++ {
		l = append(l, i)
	}
	return l
}

// quick: the lengths goom writes (12/13/14-byte jumps, 5-byte rel jumps, 48-byte stubs) and
// the edge cases 0, 1, 2.
func VC_C14_write_4k_a()  { vWrite(4096, []int{0, 1, 2, 5}) }
func VC_C14_write_4k_b()  { vWrite(4096, []int{12, 13, 14}) }
func VC_C14_write_4k_c()  { vWrite(4096, []int{24, 48}) }
func VC_C14_write_16k_a() { vWrite(16384, []int{0, 1, 5, 13}) }
func VC_C14_write_16k_b() { vWrite(16384, []int{14, 48}) }

// thorough: every length 0..64 in slices of 8, three page sizes, plus 128.
func VC_C14_writeT_4k_0()  { vWrite(4096, vRange(0, 8)) }
func VC_C14_writeT_4k_1()  { vWrite(4096, vRange(9, 16)) }
func VC_C14_writeT_4k_2()  { vWrite(4096, vRange(17, 24)) }
func VC_C14_writeT_4k_3()  { vWrite(4096, vRange(25, 32)) }
func VC_C14_writeT_4k_4()  { vWrite(4096, vRange(33, 40)) }
func VC_C14_writeT_4k_5()  { vWrite(4096, vRange(41, 48)) }
func VC_C14_writeT_4k_6()  { vWrite(4096, vRange(49, 56)) }
func VC_C14_writeT_4k_7()  { vWrite(4096, vRange(57, 64)) }
func VC_C14_writeT_4k_8()  { vWrite(4096, []int{96, 128}) }
func VC_C14_writeT_64k_0() { vWrite(65536, []int{0, 1, 5, 12}) }
func VC_C14_writeT_64k_1() { vWrite(65536, []int{13, 14, 48}) }
func VC_C14_writeT_16k_0() { vWrite(16384, []int{2, 12, 24}) }

// VC_C14_rawread: RawRead returns a private copy of exactly the bytes at addr.
func VC_C14_rawread() {
	vPage = 4096
	n := verifChoice("len", 33)
	addr := verifUintptr("addr")
	verifAssume(addr >= 4096)
	verifAssume(addr < uintptr(1)<<47)
	w0 := verifImgWrites()
	b := RawRead(addr, n)
	verifAssert(len(b) == n, "C14.rawread.len")
	verifAssert(!verifIsImg(b), "C14.rawread.private-copy")
	for k := 0; k < n; k++ {
		verifAssert(b[k] == verifImgLoad(addr+uintptr(k)), "C14.rawread.bytes")
	}
	verifAssert(verifImgWrites() == w0, "C14.rawread.no-write")
	verifReached("C14.rawread")
}

// VC_C14_pagestart: PageStart is the page base for every page size.
func VC_C14_pagestart() {
	vPage = vPages[verifChoice("page", 3)]
	a := verifUintptr("a")
	p := PageStart(a)
	verifAssert(p <= a && a-p < uintptr(vPage) && p%uintptr(vPage) == 0, "C14.pagestart")
	verifReached("C14.pagestart")
}
