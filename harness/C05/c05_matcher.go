package mocker

import (
	"reflect"

	"github.com/tencent/goom/arg"
)

// C05: result sequences are served in order and stick at the last element.

// vMatcher builds a matcher whose i-th result is the single value i (so the served
// position can be read back).
func vMatcher(n int) *BaseMatcher {
	rs := make([][]reflect.Value, 0)
	for i := 0; i < n; i++ {
		rs = append(rs, []reflect.Value{reflect.ValueOf(i)})
	}
	return &BaseMatcher{results: rs}
}

func vIdx(r []reflect.Value) int { return int(r[0].Int()) }

// VC_C05_seq: the k-th call (k = 0,1,...) returns element min(k, n-1), for every n in 1..6
// and n+3 calls; a second matcher is not disturbed.
func VC_C05_seq() {
	n := verifChoice("n", 6) + 1
	m := vMatcher(n)
	other := vMatcher(3)
	for k := 0; k < n+3; k++ {
		want := k
		if want > n-1 {
			want = n - 1
		}
		got := vIdx(m.Result())
		verifAssert(got == want, "C05.seq.kth-element")
		verifAssert(other.curNum == 0, "C05.seq.independent-cursor")
	}
	verifAssert(vIdx(other.Result()) == 0, "C05.seq.other-starts-at-0")
	verifReached("C05.seq")
}

// VC_C05_seq_symbolic_cursor: one inductive step from an arbitrary cursor state
// 0 <= curNum: the served index is min(curNum, n-1) and the cursor never decreases.
func VC_C05_seq_step() {
	n := verifChoice("n", 6) + 1
	m := vMatcher(n)
	c := verifI32("cur")
	verifAssume(c >= 0)
	m.curNum = c
	if n <= 1 {
		// the single-result fast path indexes with the cursor itself, which stays 0
		verifAssume(c == 0)
	}
	got := vIdx(m.Result())
	want := int(c)
	if want > n-1 {
		want = n - 1
	}
	verifAssert(got == want, "C05.step.element")
	verifAssert(m.curNum >= c, "C05.step.cursor-monotone")
	verifReached("C05.step")
}

var vIdxNames = [6]string{"idx0", "idx1", "idx2", "idx3", "idx4", "idx5"}

func vConc(T, C int) {
	n := verifChoice("n", 4) + 1
	m := vMatcher(n)
	N := T * C
	idx := make([]int, N)
	start := make([]int, N)
	end := make([]int, N)
	for t := 0; t < T; t++ {
		t := t
		verifSpawn(func() {
			for c := 0; c < C; c++ {
				k := t*C + c
				start[k] = verifStep()
				r := m.Result()
				idx[k] = vIdx(r)
				end[k] = verifStep()
			}
		})
	}
	verifJoin()
	for a := 0; a < N && a < 6; a++ {
		verifWitness(vIdxNames[a], uint64(idx[a]))
	}
	for a := 0; a < N; a++ {
		verifAssert(idx[a] >= 0 && idx[a] < n, "C05.conc.in-range")
		for b := 0; b < N; b++ {
			if a == b {
				continue
			}
			before := end[a] < start[b]
			if a/C == b/C {
				before = a < b // program order within one caller
			}
			if before {
				verifAssert(idx[a] <= idx[b], "C05.conc.never-backwards")
				if idx[a] == n-1 {
					verifAssert(idx[b] == n-1, "C05.conc.sticky-last")
				}
			}
		}
	}
	verifAssert(int(m.curNum) <= n+T, "C05.conc.cursor-bounded")
	verifReached("C05.conc")
}

// VC_C05_conc_2x2: two concurrent callers, two calls each, n in 1..4.
func VC_C05_conc_2x2() { vConc(2, 2) }

// VC_C05_conc_3x1: three concurrent callers, one call each.
func VC_C05_conc_3x1() { vConc(3, 1) }

// VC_C05_conc_3x2: thorough.
func VC_C05_conc_3x2() { vConc(3, 2) }

// VC_C05_conc_2x3: thorough.
func VC_C05_conc_2x3() { vConc(2, 3) }

func vC05F(i int) int { return 0 }

// VC_C05_api: sequences attached to two conditions and to the default through
// Return/AndReturn/Returns advance independently and stick at their last element.
func VC_C05_api() {
	d0, d1 := verifInt("d0"), verifInt("d1")
	a0, a1 := verifInt("a0"), verifInt("a1")
	b0, b1, b2 := verifInt("b0"), verifInt("b1"), verifInt("b2")
	w, err := CreateWhen(nil, vC05F, nil, []interface{}{d0}, false)
	verifAssert(err == nil, "C05.api.create-ok")
	w.AndReturn(d1)
	w.When(5).Return(a0).AndReturn(a1)
	w.When(6).Returns(b0, b1, b2)
	// a clause may mix the two ways of giving a sequence
	c0, c1, c2 := verifInt("c0"), verifInt("c1"), verifInt("c2")
	w.When(7).Returns(c0, c1).AndReturn(c2)
	f := reflect.MakeFunc(w.funcTyp, func(args []reflect.Value) []reflect.Value { return w.invoke(args) }).Interface().(func(int) int)
	calls := [17]int{5, 9, 7, 5, 6, 9, 7, 5, 6, 6, 7, 6, 9, 7, 6, 5, 9}
	wantC := [4]int{c0, c1, c2, c2}
	ic := 0
	wantA := [3]int{a0, a1, a1}
	wantB := [5]int{b0, b1, b2, b2, b2}
	wantD := [3]int{d0, d1, d1}
	ia, ib, id := 0, 0, 0
	for _, c := range calls {
		got := f(c)
		switch c {
		case 5:
			k := ia
			if k > 2 {
				k = 2
			}
			verifAssert(got == wantA[k], "C05.api.condition-sequence")
			ia++
		case 7:
			k := ic
			if k > 3 {
				k = 3
			}
			verifAssert(got == wantC[k], "C05.api.mixed-returns-andreturn-sequence")
			ic++
		case 6:
			k := ib
			if k > 4 {
				k = 4
			}
			verifAssert(got == wantB[k], "C05.api.returns-sequence")
			ib++
		default:
			k := id
			if k > 2 {
				k = 2
			}
			verifAssert(got == wantD[k], "C05.api.default-sequence")
			id++
		}
	}
	verifReached("C05.api")
}

func vC05Pair(i int) (int, string) { return 0, "" }

var vC05RowN = [3]string{"row0", "row1", "row2"}

// VC_C05_returns_rows: Returns given rows ([]interface{}{...}, one per call) for a
// function with two results, for the default and for a condition, with 1..3 rows: the
// k-th call gets the k-th row, later calls the last one.
func VC_C05_returns_rows() {
	n := 1 + verifChoice("rows", 3)
	onCond := verifBool("onCondition")
	var vals [3]int
	rows := make([]interface{}, n)
	strs := [3]string{"s0", "s1", "s2"}
	for i := 0; i < n; i++ {
		vals[i] = verifInt(vC05RowN[i])
		rows[i] = []interface{}{vals[i], strs[i]}
	}
	panicked := false
	var w *When
	func() {
		defer func() {
			if r := recover(); r != nil {
				panicked = true
			}
		}()
		var err error
		w, err = CreateWhen(nil, vC05Pair, nil, []interface{}{-1, "d"}, false)
		verifAssert(err == nil, "C05.rows.create-ok")
		if onCond {
			w.When(5).Returns(rows...)
		} else {
			// a fresh default sequence
			w, err = CreateWhen(nil, vC05Pair, nil, nil, false)
			verifAssert(err == nil, "C05.rows.create-ok")
			w.Returns(rows...)
		}
	}()
	verifAssert(!panicked, "C05.rows.configuration-accepted")
	if panicked {
		return
	}
	f := reflect.MakeFunc(w.funcTyp, func(args []reflect.Value) []reflect.Value { return w.invoke(args) }).Interface().(func(int) (int, string))
	for k := 0; k < 4; k++ {
		g1, g2 := f(5)
		j := k
		if j > n-1 {
			j = n - 1
		}
		verifAssert(g1 == vals[j] && g2 == strs[j], "C05.rows.kth-call-gets-kth-row")
	}
	verifReached("C05.rows")
}

var vOvN = [5]string{"call0", "call1", "call2", "call3", "call4"}

// VC_C05_overlapping: two condition clauses whose condition values may be equal, the
// first one configured in two steps (When(c).Return(a0) and, later, Return(a1) on the
// same clause), and a default: every call advances exactly the sequence of the stub it
// selects (the first registered clause that matches, else the default) by one; the other
// sequences stay where they are.
func VC_C05_overlapping() {
	c1 := verifInt("c1")
	c2 := c1 + 1
	if verifBool("sameCondition") {
		c2 = c1
	}
	other := c1 + 2
	a0, a1, b0, b1, d0 := verifInt("a0"), verifInt("a1"), verifInt("b0"), verifInt("b1"), verifInt("d0")
	w, err := CreateWhen(nil, vC05F, nil, []interface{}{d0}, false)
	verifAssert(err == nil, "C05.overlap.create-ok")
	w.When(c1).Return(a0)
	w.Return(a1) // the clause of c1 continues: a0, a1
	w.When(c2).Returns(b0, b1)
	f := reflect.MakeFunc(w.funcTyp, func(args []reflect.Value) []reflect.Value { return w.invoke(args) }).Interface().(func(int) int)
	wantA := [2]int{a0, a1}
	wantB := [2]int{b0, b1}
	ka, kb := 0, 0
	args := [3]int{c1, c2, other}
	for i := 0; i < 5; i++ {
		which := verifChoice(vOvN[i], 3)
		got := f(args[which])
		switch {
		case which == 0 || (which == 1 && c2 == c1):
			k := ka
			if k > 1 {
				k = 1
			}
			verifAssert(got == wantA[k], "C05.overlap.first-clause-advances-by-one-per-own-call")
			ka++
		case which == 1:
			k := kb
			if k > 1 {
				k = 1
			}
			verifAssert(got == wantB[k], "C05.overlap.second-clause-advances-independently")
			kb++
		default:
			verifAssert(got == d0, "C05.overlap.default-for-unmatched")
		}
	}
	verifReached("C05.overlap")
}

// VC_C05_default_in_steps: a default sequence configured in several steps while no
// condition is open (Returns then Returns; Return then Return().AndReturn(); Returns, a
// call, then Return): the rows are served in the order they were given, the last sticks.
func VC_C05_default_in_steps() {
	d0, d1, d2, d3 := verifInt("d0"), verifInt("d1"), verifInt("d2"), verifInt("d3")
	w := NewWhen(reflect.TypeOf(vC05F))
	f := reflect.MakeFunc(w.funcTyp, func(args []reflect.Value) []reflect.Value { return w.invoke(args) }).Interface().(func(int) int)
	var want [5]int
	n := 0
	switch verifChoice("steps", 3) {
	case 0:
		w.Returns(d0, d1)
		w.Returns(d2, d3)
		want, n = [5]int{d0, d1, d2, d3, d3}, 5
	case 1:
		w.Return(d0)
		w.Return(d1).AndReturn(d2)
		want, n = [5]int{d0, d1, d2, d2, d2}, 5
	default:
		w.Returns(d0, d1, d2)
		verifAssert(f(1) == d0, "C05.default-steps.rows-in-order")
		w.Return(d3)
		want, n = [5]int{d1, d2, d3, d3, d3}, 5
	}
	for i := 0; i < n; i++ {
		verifAssert(f(1) == want[i], "C05.default-steps.rows-in-order")
	}
	verifReached("C05.default-steps")
}

// VC_C05_matches_then_more_rows: a Matches table in the middle of a chain: rows added
// afterwards (AndReturn) still belong to the clause that was open before the table (a
// condition or the default), the pairs of the table keep their own single result.
func VC_C05_matches_then_more_rows() {
	a0, a1, p2, p3, d0 := verifInt("a0"), verifInt("a1"), verifInt("p2"), verifInt("p3"), verifInt("d0")
	w, err := CreateWhen(nil, vC05F, nil, []interface{}{d0}, false)
	verifAssert(err == nil, "C05.matches-rows.create-ok")
	onDefault := verifBool("onDefault")
	if onDefault {
		w.Matches(arg.Pair{Args: 2, Return: p2}, arg.Pair{Args: 3, Return: p3}).AndReturn(a1)
	} else {
		w.When(1).Return(a0).Matches(arg.Pair{Args: 2, Return: p2}, arg.Pair{Args: 3, Return: p3}).AndReturn(a1)
	}
	f := reflect.MakeFunc(w.funcTyp, func(args []reflect.Value) []reflect.Value { return w.invoke(args) }).Interface().(func(int) int)
	for round := 0; round < 3; round++ {
		verifAssert(f(2) == p2 && f(3) == p3, "C05.matches-rows.pairs-keep-their-own-result")
		if onDefault {
			want := d0
			if round > 0 {
				want = a1
			}
			verifAssert(f(9) == want, "C05.matches-rows.later-rows-extend-the-open-clause")
		} else {
			want := a0
			if round > 0 {
				want = a1
			}
			verifAssert(f(1) == want, "C05.matches-rows.later-rows-extend-the-open-clause")
			verifAssert(f(9) == d0, "C05.matches-rows.default-untouched")
		}
	}
	verifReached("C05.matches-rows")
}
