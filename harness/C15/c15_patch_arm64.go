package patch

const vUserTop = uintptr(1) << 47

func vAddr(a uintptr) {
	verifAssume(a < vUserTop)
	verifAssume(a >= 4096)
}

// VC_C15_arm64_divert: MOVZ/MOVK x3 reassemble the full 64-bit address of the func value in
// X26 (the Go arm64 closure-context register), the code pointer is loaded from it and
// branched to.
func VC_C15_arm64_divert() {
	from, to := verifUintptr("from"), verifUintptr("to")
	vAddr(from)
	verifAssume(to >= 4096) // any 64-bit destination
	verifAssume(from&3 == 0)
	code := jmpToFunctionValue(from, to)
	verifAssume(to+8 <= from || to >= from+uintptr(len(code)))
	verifAssume(to+8 >= 8)
	var m varm
	m.havoc()
	before := m
	vstore(from, code)
	target := verifImgLoad64(to)
	jumped := m.runFrom(uint64(from))
	verifAssert(m.ok && jumped, "C15.arm64.divert.known-encoding")
	verifAssert(m.x[26] == uint64(to), "C15.arm64.divert.ctx")
	verifAssert(m.pc == target, "C15.arm64.divert.lands")
	// callee-visible state: everything except X26 (context), X27 (REGTMP) and the
	// register used for the branch is unchanged; argument registers X0..X15 are the
	// subject of C01 and reported there
	same := true
	for i := 0; i < 32; i++ {
		if i != 26 && i != 27 && m.x[i] != before.x[i] {
			same = false
		}
	}
	verifAssert(same, "C15.arm64.divert.preserves")
	verifReached("C15.arm64.divert")
}

// VC_C15_arm64_movImm: each move instruction places imm16 at hw*16 in X26.
func VC_C15_arm64_movImm() {
	v := verifUintptr("val")
	verifAssume(v <= 0xFFFF)
	hw := verifChoice("hw", 4)
	code := movImm(_0b11, hw, v)
	var m varm
	m.havoc()
	before := m
	vstore(4096, code)
	m.pc = 4096
	m.step()
	verifAssert(m.ok, "C15.arm64.movk.known-encoding")
	sh := uint(hw) * 16
	verifAssert(m.x[26] == before.x[26]&^(uint64(0xFFFF)<<sh)|uint64(v)<<sh, "C15.arm64.movk.value")
	verifReached("C15.arm64.movk")
}
