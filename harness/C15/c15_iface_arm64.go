package iface

const vUserTop = uintptr(1) << 47

// VC_C15_arm64_ifaceStub: interface stub (jmpWithRdx / jmpWithRdxAndCtx) on arm64.
func VC_C15_arm64_ifaceStub() {
	from, dx := verifUintptr("from"), verifUintptr("dx")
	verifAssume(from < vUserTop)
	verifAssume(from >= 4096)
	verifAssume(from&3 == 0)
	verifAssume(dx >= 4096)
	verifAssume(dx+8 >= 8)
	var code []byte
	if verifChoice("form", 2) == 0 {
		code = jmpWithRdx(dx)
	} else {
		code = jmpWithRdxAndCtx(dx, verifUintptr("a"), verifUintptr("b"))
	}
	verifAssume(dx+8 <= from || dx >= from+uintptr(len(code)))
	var m varm
	m.havoc()
	before := m
	vstore(from, code)
	target := verifImgLoad64(dx)
	jumped := m.runFrom(uint64(from))
	verifAssert(m.ok && jumped, "C15.arm64.iface.known-encoding")
	verifAssert(m.x[26] == uint64(dx), "C15.arm64.iface.ctx")
	verifAssert(m.pc == target, "C15.arm64.iface.lands")
	same := true
	for i := 0; i < 32; i++ {
		if i != 26 && i != 27 && m.x[i] != before.x[i] {
			same = false
		}
	}
	verifAssert(same, "C15.arm64.iface.preserves")
	verifReached("C15.arm64.iface")
}
