package patch

// i386 micro-semantics: BA imm32 (mov edx,imm32), FF 22 (jmp dword ptr [edx]).
type vx86_32 struct {
	eip  uint32
	regs [8]uint32
	ok   bool
}

var v386Names = [8]string{"eax", "ecx", "edx", "ebx", "esp", "ebp", "esi", "edi"}

func (m *vx86_32) step() bool {
	b0 := verifImgLoad(uintptr(m.eip))
	switch {
	case b0 == 0x90:
		m.eip++
		return false
	case b0&0xF8 == 0xB8:
		m.regs[int(b0&7)] = verifImgLoad32(uintptr(m.eip + 1))
		m.eip += 5
		return false
	case b0 == 0xFF:
		modrm := verifImgLoad(uintptr(m.eip + 1))
		mod, reg, rm := modrm>>6, (modrm>>3)&7, int(modrm&7)
		if reg != 4 {
			m.ok = false
			return false
		}
		switch {
		case mod == 0 && rm != 4 && rm != 5:
			m.eip = verifImgLoad32(uintptr(m.regs[rm]))
		case mod == 3:
			m.eip = m.regs[rm]
		default:
			m.ok = false
		}
		return true
	}
	m.ok = false
	return false
}

// VC_C15_386_divert: i386 entry jump.
func VC_C15_386_divert() {
	from, to := verifUintptr("from"), verifUintptr("to")
	verifAssume(from >= 4096)
	verifAssume(to >= 4096)
	verifAssume(from < 0xFFFF0000)
	verifAssume(to < 0xFFFF0000)
	code := jmpToFunctionValue(from, to)
	verifAssume(to+4 <= from || to >= from+uintptr(len(code)))
	var m vx86_32
	for i := 0; i < 8; i++ {
		m.regs[i] = verifU32(v386Names[i])
	}
	m.ok = true
	before := m
	for i := 0; i < len(code); i++ {
		verifImgStore(from+uintptr(i), code[i])
	}
	target := verifImgLoad32(to)
	m.eip = uint32(from)
	jumped := false
	for i := 0; i < 4 && m.ok && !jumped; i++ {
		jumped = m.step()
	}
	verifAssert(m.ok && jumped, "C15.386.divert.known-encoding")
	verifAssert(m.eip == target, "C15.386.divert.lands")
	verifAssert(m.regs[2] == uint32(to), "C15.386.divert.edx")
	same := true
	for i := 0; i < 8; i++ {
		if i != 2 && m.regs[i] != before.regs[i] {
			same = false
		}
	}
	verifAssert(same, "C15.386.divert.preserves")
	verifReached("C15.386.divert")
}
