package patch

// C15: emitted jump sequences transfer control to exactly the requested address
// (amd64, package patch). Domain: user-space addresses < 2^47.

const vUserTop = uintptr(1) << 47

func vAddr(a uintptr) {
	verifAssume(a < vUserTop)
	verifAssume(a >= 4096)
}

// VC_C15_divert: the 13-byte entry jump written at `from` reaches the code pointer stored
// in the func value at `to`, with RDX = to and every other register unchanged.
func VC_C15_divert() {
	from, to := verifUintptr("from"), verifUintptr("to")
	vAddr(from)
	vAddr(to)
	// the func value does not live inside the patched window
	verifAssume(to+8 <= from || to >= from+13)
	code := jmpToFunctionValue(from, to)
	verifAssert(len(code) == 13, "C15.divert.len")
	verifAssert(checkAlreadyPatch(code), "C15.divert.sentinel")
	var m vx86
	m.havoc()
	before := m
	vstore(from, code)
	target := verifImgLoad64(to)
	jumped := m.runFrom(uint64(from))
	verifAssert(m.ok && jumped, "C15.divert.known-encoding")
	verifAssert(m.rip == target, "C15.divert.lands")
	verifAssert(m.regs[2] == uint64(to), "C15.divert.rdx")
	verifAssert(m.sameExcept(&before, 2), "C15.divert.preserves")
	verifReached("C15.divert")
}

// VC_C15_jumpBack: the jump appended to a trampoline at `from` reaches `to` itself (a code
// address), whichever form relative() selects, and keeps RDX (the closure context).
func VC_C15_jumpBack() {
	from, to := verifUintptr("from"), verifUintptr("to")
	vAddr(from)
	vAddr(to)
	code := jmpToOriginFunctionValue(from, to)
	// the destination is outside the emitted bytes
	verifAssume(to+8 <= from || to >= from+uintptr(len(code)))
	var m vx86
	m.havoc()
	before := m
	vstore(from, code)
	jumped := m.runFrom(uint64(from))
	verifWitness("landing", m.rip)
	verifAssert(m.ok && jumped, "C15.jumpBack.known-encoding")
	if code[0] == 0xe9 {
		verifAssert(m.rip == uint64(to), "C15.jumpBack.rel.lands")
		verifAssert(m.sameExcept(&before, -1), "C15.jumpBack.rel.preserves")
		verifReached("C15.jumpBack.rel")
	} else {
		verifAssertClass(m.rip == uint64(to), "C15.jumpBack.abs.lands", "F2")
		verifAssertClass(m.sameExcept(&before, -1), "C15.jumpBack.abs.preserves", "F2")
		verifReached("C15.jumpBack.abs")
	}
}

// VC_C15_relative: relative() is safe: whenever it says yes, to-from-5 fits in int32.
func VC_C15_relative() {
	from, to := verifUintptr("from"), verifUintptr("to")
	verifAssume(from < vUserTop)
	verifAssume(to < vUserTop)
	if relative(from, to) {
		d := int64(to) - int64(from) - 5
		verifAssert(d >= -(1<<31) && d <= (1<<31)-1, "C15.relative.fits")
		verifReached("C15.relative.yes")
	} else {
		verifReached("C15.relative.no")
	}
}
