package PKG

// arm64 micro-semantics for the encodings goom emits: MOVZ/MOVK/MOVN (64-bit),
// LDR Xt,[Xn,#imm12*8], BR Xn. Anything else clears ok.

type varm struct {
	pc uint64
	x  [32]uint64
	ok bool
}

var varmNames = [32]string{"x0", "x1", "x2", "x3", "x4", "x5", "x6", "x7", "x8", "x9", "x10", "x11", "x12", "x13", "x14", "x15",
	"x16", "x17", "x18", "x19", "x20", "x21", "x22", "x23", "x24", "x25", "x26", "x27", "x28", "x29", "x30", "sp"}

func (m *varm) havoc() {
	for i := 0; i < 32; i++ {
		m.x[i] = verifU64(varmNames[i])
	}
	m.ok = true
}

// step executes one instruction; reports whether it was a branch.
func (m *varm) step() bool {
	w := verifImgLoad32(uintptr(m.pc))
	switch {
	case (w>>23)&0x3F == 0x25: // move wide immediate
		sf, opc, hw := w>>31, (w>>29)&3, (w>>21)&3
		imm := uint64((w >> 5) & 0xFFFF)
		rd := int(w & 31)
		if sf != 1 || opc == 1 || rd == 31 {
			m.ok = false
			return false
		}
		sh := uint(hw) * 16
		switch opc {
		case 2:
			m.x[rd] = imm << sh
		case 3:
			m.x[rd] = m.x[rd]&^(uint64(0xFFFF)<<sh) | imm<<sh
		case 0:
			m.x[rd] = ^(imm << sh)
		}
		m.pc += 4
		return false
	case w>>22 == 0x3E5: // LDR Xt, [Xn, #imm12*8]
		imm12 := uint64((w >> 10) & 0xFFF)
		rn, rt := int((w>>5)&31), int(w&31)
		if rt == 31 {
			m.ok = false
			return false
		}
		m.x[rt] = verifImgLoad64(uintptr(m.x[rn] + imm12*8))
		m.pc += 4
		return false
	case w&0xFFFFFC1F == 0xD61F0000: // BR Xn
		rn := int((w >> 5) & 31)
		if rn == 31 {
			m.ok = false
			return false
		}
		m.pc = m.x[rn]
		return true
	}
	m.ok = false
	return false
}

func (m *varm) runFrom(addr uint64) bool {
	m.pc = addr
	for i := 0; i < 8 && m.ok; i++ {
		if m.step() {
			return m.ok
		}
	}
	return false
}

func vstore(addr uintptr, code []byte) {
	for i := 0; i < len(code); i++ {
		verifImgStore(addr+uintptr(i), code[i])
	}
}
