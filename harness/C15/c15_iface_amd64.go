package iface

const vUserTop = uintptr(1) << 47

// VC_C15_ifaceStub: the interface-method stub written into stub space reaches the code
// pointer of the func value at dx with RDX = dx and nothing else changed.
func VC_C15_ifaceStub() {
	from, dx := verifUintptr("from"), verifUintptr("dx")
	verifAssume(from < vUserTop)
	verifAssume(from >= 4096)
	verifAssume(dx < vUserTop)
	verifAssume(dx >= 4096)
	code := jmpWithRdx(dx)
	verifAssume(dx+8 <= from || dx >= from+uintptr(len(code)))
	verifAssert(len(code) <= interfaceJumpDataLen, "C15.iface.fits-stub-slot")
	var m vx86
	m.havoc()
	before := m
	vstore(from, code)
	target := verifImgLoad64(dx)
	jumped := m.runFrom(uint64(from))
	verifAssert(m.ok && jumped, "C15.iface.known-encoding")
	verifAssert(m.rip == target, "C15.iface.lands")
	verifAssert(m.regs[2] == uint64(dx), "C15.iface.rdx")
	verifAssert(m.sameExcept(&before, 2), "C15.iface.preserves")
	verifReached("C15.iface")
}
