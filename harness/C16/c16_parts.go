package x86asm

// partition entry points: first-byte ranges x input lengths; the VEX space (C4/C5) is
// partitioned by its second byte

func VC_C16_q_00() { vDiff(0x00, 0x0F, 16, 0) }
func VC_C16_q_10() { vDiff(0x10, 0x1F, 16, 0) }
func VC_C16_q_20() { vDiff(0x20, 0x2F, 16, 0) }
func VC_C16_q_30() { vDiff(0x30, 0x3F, 16, 0) }
func VC_C16_q_40() { vDiff(0x40, 0x4F, 16, 0) }
func VC_C16_q_50() { vDiff(0x50, 0x5F, 16, 0) }
func VC_C16_q_60() { vDiff(0x60, 0x6F, 16, 0) }
func VC_C16_q_70() { vDiff(0x70, 0x7F, 16, 0) }
func VC_C16_q_80() { vDiff(0x80, 0x8F, 16, 0) }
func VC_C16_q_90() { vDiff(0x90, 0x9F, 16, 0) }
func VC_C16_q_a0() { vDiff(0xA0, 0xAF, 16, 0) }
func VC_C16_q_b0() { vDiff(0xB0, 0xBF, 16, 0) }
func VC_C16_q_c0() { vDiff(0xC0, 0xC3, 16, 0) }
func VC_C16_q_c6() { vDiff(0xC6, 0xCF, 16, 0) }
func VC_C16_q_d0() { vDiff(0xD0, 0xDF, 16, 0) }
func VC_C16_q_e0() { vDiff(0xE0, 0xEF, 16, 0) }
func VC_C16_q_f0() { vDiff(0xF0, 0xFF, 16, 0) }
func VC_C16_vex_c4_0() { vDiffVex(0xC4, 0x00, 0x0F, 16, 0) }
func VC_C16_vex_c4_1() { vDiffVex(0xC4, 0x10, 0x1F, 16, 0) }
func VC_C16_vex_c4_2() { vDiffVex(0xC4, 0x20, 0x2F, 16, 0) }
func VC_C16_vex_c4_3() { vDiffVex(0xC4, 0x30, 0x3F, 16, 0) }
func VC_C16_vex_c4_4() { vDiffVex(0xC4, 0x40, 0x4F, 16, 0) }
func VC_C16_vex_c4_5() { vDiffVex(0xC4, 0x50, 0x5F, 16, 0) }
func VC_C16_vex_c4_6() { vDiffVex(0xC4, 0x60, 0x6F, 16, 0) }
func VC_C16_vex_c4_7() { vDiffVex(0xC4, 0x70, 0x7F, 16, 0) }
func VC_C16_vex_c4_8() { vDiffVex(0xC4, 0x80, 0x8F, 16, 0) }
func VC_C16_vex_c4_9() { vDiffVex(0xC4, 0x90, 0x9F, 16, 0) }
func VC_C16_vex_c4_a() { vDiffVex(0xC4, 0xA0, 0xAF, 16, 0) }
func VC_C16_vex_c4_b() { vDiffVex(0xC4, 0xB0, 0xBF, 16, 0) }
func VC_C16_vex_c4_c() { vDiffVex(0xC4, 0xC0, 0xCF, 16, 0) }
func VC_C16_vex_c4_d() { vDiffVex(0xC4, 0xD0, 0xDF, 16, 0) }
func VC_C16_vex_c4_e() { vDiffVex(0xC4, 0xE0, 0xEF, 16, 0) }
func VC_C16_vex_c4_f() { vDiffVex(0xC4, 0xF0, 0xFF, 16, 0) }
func VC_C16_vex_c5_0() { vDiffVex(0xC5, 0x00, 0x0F, 16, 0) }
func VC_C16_vex_c5_1() { vDiffVex(0xC5, 0x10, 0x1F, 16, 0) }
func VC_C16_vex_c5_2() { vDiffVex(0xC5, 0x20, 0x2F, 16, 0) }
func VC_C16_vex_c5_3() { vDiffVex(0xC5, 0x30, 0x3F, 16, 0) }
func VC_C16_vex_c5_4() { vDiffVex(0xC5, 0x40, 0x4F, 16, 0) }
func VC_C16_vex_c5_5() { vDiffVex(0xC5, 0x50, 0x5F, 16, 0) }
func VC_C16_vex_c5_6() { vDiffVex(0xC5, 0x60, 0x6F, 16, 0) }
func VC_C16_vex_c5_7() { vDiffVex(0xC5, 0x70, 0x7F, 16, 0) }
func VC_C16_vex_c5_8() { vDiffVex(0xC5, 0x80, 0x8F, 16, 0) }
func VC_C16_vex_c5_9() { vDiffVex(0xC5, 0x90, 0x9F, 16, 0) }
func VC_C16_vex_c5_a() { vDiffVex(0xC5, 0xA0, 0xAF, 16, 0) }
func VC_C16_vex_c5_b() { vDiffVex(0xC5, 0xB0, 0xBF, 16, 0) }
func VC_C16_vex_c5_c() { vDiffVex(0xC5, 0xC0, 0xCF, 16, 0) }
func VC_C16_vex_c5_d() { vDiffVex(0xC5, 0xD0, 0xDF, 16, 0) }
func VC_C16_vex_c5_e() { vDiffVex(0xC5, 0xE0, 0xEF, 16, 0) }
func VC_C16_vex_c5_f() { vDiffVex(0xC5, 0xF0, 0xFF, 16, 0) }
func VC_C16_p1_00() { vDiff(0x00, 0x0F, 16, 1) }
func VC_C16_p1_10() { vDiff(0x10, 0x1F, 16, 1) }
func VC_C16_p1_20() { vDiff(0x20, 0x2F, 16, 1) }
func VC_C16_p1_30() { vDiff(0x30, 0x3F, 16, 1) }
func VC_C16_p1_40() { vDiff(0x40, 0x4F, 16, 1) }
func VC_C16_p1_50() { vDiff(0x50, 0x5F, 16, 1) }
func VC_C16_p1_60() { vDiff(0x60, 0x6F, 16, 1) }
func VC_C16_p1_70() { vDiff(0x70, 0x7F, 16, 1) }
func VC_C16_p1_80() { vDiff(0x80, 0x8F, 16, 1) }
func VC_C16_p1_90() { vDiff(0x90, 0x9F, 16, 1) }
func VC_C16_p1_a0() { vDiff(0xA0, 0xAF, 16, 1) }
func VC_C16_p1_b0() { vDiff(0xB0, 0xBF, 16, 1) }
func VC_C16_p1_c0() { vDiff(0xC0, 0xC3, 16, 1) }
func VC_C16_p1_c6() { vDiff(0xC6, 0xCF, 16, 1) }
func VC_C16_p1_d0() { vDiff(0xD0, 0xDF, 16, 1) }
func VC_C16_p1_e0() { vDiff(0xE0, 0xEF, 16, 1) }
func VC_C16_p1_f0() { vDiff(0xF0, 0xFF, 16, 1) }
func VC_C16_lenq_00_0() { vDiff(0x00, 0x3F, 0, 0) }
func VC_C16_lenq_01_0() { vDiff(0x00, 0x3F, 1, 0) }
func VC_C16_lenq_01_1() { vDiff(0x40, 0x7F, 1, 0) }
func VC_C16_lenq_01_2() { vDiff(0x80, 0xBF, 1, 0) }
func VC_C16_lenq_01_3() { vDiff(0xC0, 0xFF, 1, 0) }
func VC_C16_lenq_02_0() { vDiff(0x00, 0x3F, 2, 0) }
func VC_C16_lenq_02_1() { vDiff(0x40, 0x7F, 2, 0) }
func VC_C16_lenq_02_2() { vDiff(0x80, 0xBF, 2, 0) }
func VC_C16_lenq_02_3() { vDiff(0xC0, 0xFF, 2, 0) }
func VC_C16_lenq_03_0() { vDiff(0x00, 0x3F, 3, 0) }
func VC_C16_lenq_03_1() { vDiff(0x40, 0x7F, 3, 0) }
func VC_C16_lenq_03_2() { vDiff(0x80, 0xBF, 3, 0) }
func VC_C16_lenq_03_3() { vDiff(0xC0, 0xFF, 3, 0) }
func VC_C16_lenq_04_0() { vDiff(0x00, 0x3F, 4, 0) }
func VC_C16_len04_1() { vDiff(0x40, 0x7F, 4, 0) }
func VC_C16_lenq_04_2() { vDiff(0x80, 0xBF, 4, 0) }
func VC_C16_lenq_04_3() { vDiff(0xC0, 0xFF, 4, 0) }
func VC_C16_lenq_05_0() { vDiff(0x00, 0x3F, 5, 0) }
func VC_C16_len05_1() { vDiff(0x40, 0x7F, 5, 0) }
func VC_C16_lenq_05_2() { vDiff(0x80, 0xBF, 5, 0) }
func VC_C16_lenq_05_3c0() { vDiff(0xC0, 0xC3, 5, 0) }
func VC_C16_lenq_05_3c6() { vDiff(0xC6, 0xCF, 5, 0) }
func VC_C16_lenq_05_3d0() { vDiff(0xD0, 0xDF, 5, 0) }
func VC_C16_lenq_05_3e0() { vDiff(0xE0, 0xEF, 5, 0) }
func VC_C16_lenq_05_3f0() { vDiff(0xF0, 0xFF, 5, 0) }
func VC_C16_len05_vc4_0() { vDiffVex(0xC4, 0x00, 0x3F, 5, 0) }
func VC_C16_len05_vc4_1() { vDiffVex(0xC4, 0x40, 0x7F, 5, 0) }
func VC_C16_len05_vc4_2() { vDiffVex(0xC4, 0x80, 0xBF, 5, 0) }
func VC_C16_len05_vc4_3() { vDiffVex(0xC4, 0xC0, 0xFF, 5, 0) }
func VC_C16_len05_vc5_0() { vDiffVex(0xC5, 0x00, 0x3F, 5, 0) }
func VC_C16_len05_vc5_1() { vDiffVex(0xC5, 0x40, 0x7F, 5, 0) }
func VC_C16_len05_vc5_2() { vDiffVex(0xC5, 0x80, 0xBF, 5, 0) }
func VC_C16_len05_vc5_3() { vDiffVex(0xC5, 0xC0, 0xFF, 5, 0) }
func VC_C16_lenq_06_0() { vDiff(0x00, 0x3F, 6, 0) }
func VC_C16_len06_1() { vDiff(0x40, 0x7F, 6, 0) }
func VC_C16_lenq_06_2() { vDiff(0x80, 0xBF, 6, 0) }
func VC_C16_lenq_06_3c0() { vDiff(0xC0, 0xC3, 6, 0) }
func VC_C16_lenq_06_3c6() { vDiff(0xC6, 0xCF, 6, 0) }
func VC_C16_lenq_06_3d0() { vDiff(0xD0, 0xDF, 6, 0) }
func VC_C16_lenq_06_3e0() { vDiff(0xE0, 0xEF, 6, 0) }
func VC_C16_lenq_06_3f0() { vDiff(0xF0, 0xFF, 6, 0) }
func VC_C16_len06_vc4_0() { vDiffVex(0xC4, 0x00, 0x3F, 6, 0) }
func VC_C16_len06_vc4_1() { vDiffVex(0xC4, 0x40, 0x7F, 6, 0) }
func VC_C16_len06_vc4_2() { vDiffVex(0xC4, 0x80, 0xBF, 6, 0) }
func VC_C16_len06_vc4_3() { vDiffVex(0xC4, 0xC0, 0xFF, 6, 0) }
func VC_C16_len06_vc5_0() { vDiffVex(0xC5, 0x00, 0x3F, 6, 0) }
func VC_C16_len06_vc5_1() { vDiffVex(0xC5, 0x40, 0x7F, 6, 0) }
func VC_C16_len06_vc5_2() { vDiffVex(0xC5, 0x80, 0xBF, 6, 0) }
func VC_C16_len06_vc5_3() { vDiffVex(0xC5, 0xC0, 0xFF, 6, 0) }
func VC_C16_lenq_08_0() { vDiff(0x00, 0x3F, 8, 0) }
func VC_C16_len08_1() { vDiff(0x40, 0x7F, 8, 0) }
func VC_C16_lenq_08_2() { vDiff(0x80, 0xBF, 8, 0) }
func VC_C16_lenq_08_3c0() { vDiff(0xC0, 0xC3, 8, 0) }
func VC_C16_lenq_08_3c6() { vDiff(0xC6, 0xCF, 8, 0) }
func VC_C16_lenq_08_3d0() { vDiff(0xD0, 0xDF, 8, 0) }
func VC_C16_lenq_08_3e0() { vDiff(0xE0, 0xEF, 8, 0) }
func VC_C16_lenq_08_3f0() { vDiff(0xF0, 0xFF, 8, 0) }
func VC_C16_len08_vc4_0() { vDiffVex(0xC4, 0x00, 0x3F, 8, 0) }
func VC_C16_len08_vc4_1() { vDiffVex(0xC4, 0x40, 0x7F, 8, 0) }
func VC_C16_len08_vc4_2() { vDiffVex(0xC4, 0x80, 0xBF, 8, 0) }
func VC_C16_len08_vc4_3() { vDiffVex(0xC4, 0xC0, 0xFF, 8, 0) }
func VC_C16_len08_vc5_0() { vDiffVex(0xC5, 0x00, 0x3F, 8, 0) }
func VC_C16_len08_vc5_1() { vDiffVex(0xC5, 0x40, 0x7F, 8, 0) }
func VC_C16_len08_vc5_2() { vDiffVex(0xC5, 0x80, 0xBF, 8, 0) }
func VC_C16_len08_vc5_3() { vDiffVex(0xC5, 0xC0, 0xFF, 8, 0) }
func VC_C16_lenq_11_0() { vDiff(0x00, 0x3F, 11, 0) }
func VC_C16_len11_1() { vDiff(0x40, 0x7F, 11, 0) }
func VC_C16_lenq_11_2() { vDiff(0x80, 0xBF, 11, 0) }
func VC_C16_lenq_11_3c0() { vDiff(0xC0, 0xC3, 11, 0) }
func VC_C16_lenq_11_3c6() { vDiff(0xC6, 0xCF, 11, 0) }
func VC_C16_lenq_11_3d0() { vDiff(0xD0, 0xDF, 11, 0) }
func VC_C16_lenq_11_3e0() { vDiff(0xE0, 0xEF, 11, 0) }
func VC_C16_lenq_11_3f0() { vDiff(0xF0, 0xFF, 11, 0) }
func VC_C16_len11_vc4_0() { vDiffVex(0xC4, 0x00, 0x3F, 11, 0) }
func VC_C16_len11_vc4_1() { vDiffVex(0xC4, 0x40, 0x7F, 11, 0) }
func VC_C16_len11_vc4_2() { vDiffVex(0xC4, 0x80, 0xBF, 11, 0) }
func VC_C16_len11_vc4_3() { vDiffVex(0xC4, 0xC0, 0xFF, 11, 0) }
func VC_C16_len11_vc5_0() { vDiffVex(0xC5, 0x00, 0x3F, 11, 0) }
func VC_C16_len11_vc5_1() { vDiffVex(0xC5, 0x40, 0x7F, 11, 0) }
func VC_C16_len11_vc5_2() { vDiffVex(0xC5, 0x80, 0xBF, 11, 0) }
func VC_C16_len11_vc5_3() { vDiffVex(0xC5, 0xC0, 0xFF, 11, 0) }
func VC_C16_lenq_15_0() { vDiff(0x00, 0x3F, 15, 0) }
func VC_C16_len15_1() { vDiff(0x40, 0x7F, 15, 0) }
func VC_C16_lenq_15_2() { vDiff(0x80, 0xBF, 15, 0) }
func VC_C16_lenq_15_3c0() { vDiff(0xC0, 0xC3, 15, 0) }
func VC_C16_lenq_15_3c6() { vDiff(0xC6, 0xCF, 15, 0) }
func VC_C16_lenq_15_3d0() { vDiff(0xD0, 0xDF, 15, 0) }
func VC_C16_lenq_15_3e0() { vDiff(0xE0, 0xEF, 15, 0) }
func VC_C16_lenq_15_3f0() { vDiff(0xF0, 0xFF, 15, 0) }
func VC_C16_len15_vc4_0() { vDiffVex(0xC4, 0x00, 0x3F, 15, 0) }
func VC_C16_len15_vc4_1() { vDiffVex(0xC4, 0x40, 0x7F, 15, 0) }
func VC_C16_len15_vc4_2() { vDiffVex(0xC4, 0x80, 0xBF, 15, 0) }
func VC_C16_len15_vc4_3() { vDiffVex(0xC4, 0xC0, 0xFF, 15, 0) }
func VC_C16_len15_vc5_0() { vDiffVex(0xC5, 0x00, 0x3F, 15, 0) }
func VC_C16_len15_vc5_1() { vDiffVex(0xC5, 0x40, 0x7F, 15, 0) }
func VC_C16_len15_vc5_2() { vDiffVex(0xC5, 0x80, 0xBF, 15, 0) }
func VC_C16_len15_vc5_3() { vDiffVex(0xC5, 0xC0, 0xFF, 15, 0) }

// operand-size prefix 66 + one-byte opcodes (0F escape: VC_C16_mand_66)
func VC_C16_o16_00() { vDiff66(0x00, 0x0F, 16) }
func VC_C16_o16_10() { vDiff66(0x10, 0x1F, 16) }
func VC_C16_o16_20() { vDiff66(0x20, 0x2F, 16) }
func VC_C16_o16_30() { vDiff66(0x30, 0x3F, 16) }
func VC_C16_o16_50() { vDiff66(0x50, 0x5F, 16) }
func VC_C16_o16_60() { vDiff66(0x60, 0x6F, 16) }
func VC_C16_o16_70() { vDiff66(0x70, 0x7F, 16) }
func VC_C16_o16_80() { vDiff66(0x80, 0x8F, 16) }
func VC_C16_o16_90() { vDiff66(0x90, 0x9F, 16) }
func VC_C16_o16_a0() { vDiff66(0xA0, 0xAF, 16) }
func VC_C16_o16_b0() { vDiff66(0xB0, 0xBF, 16) }
func VC_C16_o16_c0() { vDiff66(0xC0, 0xCF, 16) }
func VC_C16_o16_d0() { vDiff66(0xD0, 0xDF, 16) }
func VC_C16_o16_e0() { vDiff66(0xE0, 0xEF, 16) }
func VC_C16_o16_f0() { vDiff66(0xF0, 0xFF, 16) }
