package x86asm

import (
	"strconv"

	refx86 "github.com/tencent/goom/internal/zzverifref/refx86"
)

// C16 (b): on every operand/displacement/immediate variant of every instruction class the
// Go toolchain emits (classes harvested from the freshly built test binary with the
// reference decoder), goom's bundled decoder reports the same instruction boundary,
// opcode and PC-relative field position and width as the reference decoder (the Go
// toolchain's own copy of x/arch/x86/x86asm).

func vKey(r *refx86.Inst) string {
	k := ""
	for _, a := range r.Args {
		if a == nil {
			break
		}
		if k != "" {
			k += ","
		}
		switch a.(type) {
		case refx86.Reg:
			k += "Reg"
		case refx86.Mem:
			k += "Mem"
		case refx86.Imm:
			k += "Imm"
		case refx86.Rel:
			k += "Rel"
		}
	}
	return r.Op.String() + "|" + strconv.Itoa(r.DataSize) + "|" + strconv.Itoa(r.MemBytes) + "|" + k
}

func vAgree(src []byte) {
	g, gerr := Decode(src, 64)
	r, rerr := refx86.Decode(src, 64)
	if rerr == nil && r.Op != 0 && vEmitted[vKey(&r)] {
		verifAssert(gerr == nil, "C16.diff.decodes-emitted-class")
		if gerr == nil {
			verifAssert(g.Len == r.Len, "C16.diff.same-boundary")
			verifAssert(g.Op.String() == r.Op.String(), "C16.diff.same-opcode")
			verifAssert(g.PCRel == r.PCRel && g.PCRelOff == r.PCRelOff, "C16.diff.same-pcrel-field")
		}
		verifReached("C16.diff.emitted")
	}
	// totality (C16 a) on the same path
	n := len(src)
	if gerr == nil {
		verifAssert(g.Len >= 1 && g.Len <= 15 && g.Len <= n, "C16.total.len-in-range")
	} else {
		verifAssert(g.Len >= 0 && g.Len <= n && g.Len <= 15, "C16.total.error-len-in-range")
	}
	if g.PCRel > 0 {
		verifAssert(g.PCRelOff >= 1 && g.PCRelOff+g.PCRel <= g.Len, "C16.total.pcrel-inside")
		verifAssert(g.PCRel == 1 || g.PCRel == 2 || g.PCRel == 4, "C16.total.pcrel-width")
	}
	verifReached("C16.total")
}

func vDiff(lo, hi int, n int, maxLegacy int) {
	src := verifBytes("src", n)
	if n > 0 {
		verifAssume(int(src[0]) >= lo)
		verifAssume(int(src[0]) <= hi)
	}
	vPrefixBound(src, maxLegacy)
	vAgree(src)
}

func vDiffVex(first int, lo2, hi2 int, n int, maxLegacy int) {
	src := verifBytes("src", n)
	verifAssume(int(src[0]) == first)
	verifAssume(int(src[1]) >= lo2)
	verifAssume(int(src[1]) <= hi2)
	i := 2
	if first == 0xC4 {
		i = 3
	}
	for k := 0; k < maxLegacy && i < len(src) && vIsLegacy(src[i]); k++ {
		i++
	}
	if i < len(src) {
		verifAssume(!vIsLegacy(src[i]))
	}
	vAgree(src)
}

// vDiffMandatory: one of the prefixes 66/F2/F3 (operand-size override and the SSE
// mandatory prefixes) followed by an optional REX and the two-byte opcode escape 0F —
// the prefixed forms the Go toolchain emits most (SSE scalar/packed operations).
func vDiffMandatory(prefix int, n int) {
	src := verifBytes("src", n)
	verifAssume(int(src[0]) == prefix)
	if vIsREX(src[1]) {
		verifAssume(src[2] == 0x0F)
	} else {
		verifAssume(src[1] == 0x0F)
	}
	vAgree(src)
}

func VC_C16_mand_66() { vDiffMandatory(0x66, 16) }
func VC_C16_mand_f2() { vDiffMandatory(0xF2, 16) }
func VC_C16_mand_f3() { vDiffMandatory(0xF3, 16) }


// vDiff66: the operand-size prefix 66 (the one legacy prefix the Go compiler puts in front
// of ordinary one-byte opcodes: 16-bit moves, compares, tests) followed by an optional
// REX and an opcode byte in [lo, hi].
func vDiff66(lo, hi int, n int) {
	src := verifBytes("src", n)
	verifAssume(src[0] == 0x66)
	vPrefixBound(src[1:], 0)
	k := 1
	if vIsREX(src[1]) {
		k = 2
	}
	verifAssume(int(src[k]) >= lo)
	verifAssume(int(src[k]) <= hi)
	vAgree(src)
}
