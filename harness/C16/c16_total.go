package x86asm

// C16: prefix bound shared by the totality and agreement VCs.

func vIsLegacy(b byte) bool {
	switch b {
	case 0x26, 0x2E, 0x36, 0x3E, 0x64, 0x65, 0x66, 0x67, 0xF0, 0xF2, 0xF3:
		return true
	}
	return false
}

func vIsREX(b byte) bool { return b&0xF0 == 0x40 }

// vPrefixBound: at most maxLegacy legacy prefixes, then at most one REX, then a
// non-prefix byte. (Longer prefix runs are outside the claim.)
func vPrefixBound(src []byte, maxLegacy int) {
	i := 0
	for k := 0; k < maxLegacy && i < len(src) && vIsLegacy(src[i]); k++ {
		i++
	}
	if i < len(src) {
		verifAssume(!vIsLegacy(src[i]))
		if vIsREX(src[i]) {
			i++
			if i < len(src) {
				verifAssume(!vIsLegacy(src[i]))
				verifAssume(!vIsREX(src[i]))
			}
		}
	}
}

