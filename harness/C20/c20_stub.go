package stub

import (
	"errors"
	"syscall"
)

// C20: executable stub space is never handed out twice or outside its reserve.

const vTop = uintptr(1) << 47

// vReserve sets up an arbitrary reserve state: min <= off, min < max < 2^47.
func vReserve() (min, max uintptr) {
	min, max = verifUintptr("min"), verifUintptr("max")
	off := verifUintptr("off")
	verifAssume(min >= 4096)
	verifAssume(min < max)
	verifAssume(max < vTop)
	verifAssume(min <= off)
	verifAssume(off < vTop)
	placeHolderIns = &PlaceHolder{off: off, min: min, max: max}
	return
}

func vSize(name string) int {
	n := verifInt(name)
	verifAssume(n >= 0)
	verifAssume(n <= 1<<47)
	return n
}

func vDisjoint(a uintptr, n int, b uintptr, m int) bool {
	return n == 0 || m == 0 || a+uintptr(n) <= b || b+uintptr(m) <= a
}

// VC_C20_seq: two successive requests from an arbitrary reserve state.
func VC_C20_seq() {
	min, max := vReserve()
	off0 := placeHolderIns.off
	n1, n2 := vSize("n1"), vSize("n2")
	a1, _, e1 := acquireFromHolder(n1)
	off1 := placeHolderIns.off
	verifAssert(off1 >= off0, "C20.seq.off-monotone")
	if e1 == nil {
		verifAssert(a1 >= min && a1+uintptr(n1) <= max, "C20.seq.inside-reserve")
		verifAssert(a1 >= off0, "C20.seq.not-before-previous")
		verifReached("C20.seq.first-ok")
	} else {
		verifAssert(a1 == 0, "C20.seq.error-has-no-address")
		verifReached("C20.seq.first-refused")
	}
	a2, _, e2 := acquireFromHolder(n2)
	verifWitness("a1", uint64(a1))
	verifWitness("a2", uint64(a2))
	verifAssert(placeHolderIns.off >= off1, "C20.seq.off-monotone2")
	if e2 == nil {
		verifAssert(a2 >= min && a2+uintptr(n2) <= max, "C20.seq.inside-reserve2")
		if e1 == nil {
			verifAssert(vDisjoint(a1, n1, a2, n2), "C20.seq.disjoint")
			verifReached("C20.seq.both-ok")
		}
	}
	// a request that does not fit in what is left is refused
	if off0 <= max && uintptr(n1) > max-off0 {
		verifAssert(e1 != nil, "C20.seq.exhaustion-reported")
		verifReached("C20.seq.exhausted")
	}
}

// VC_C20_conc2: two concurrent requesters (every interleaving of the atomic operations).
func VC_C20_conc2() {
	min, max := vReserve()
	var n [2]int
	n[0], n[1] = vSize("n0"), vSize("n1")
	var a [2]uintptr
	var ok [2]bool
	for t := 0; t < 2; t++ {
		t := t
		verifSpawn(func() {
			p, _, err := acquireFromHolder(n[t])
			a[t], ok[t] = p, err == nil
		})
	}
	verifJoin()
	verifWitness("a0", uint64(a[0]))
	verifWitness("a1", uint64(a[1]))
	for t := 0; t < 2; t++ {
		if ok[t] {
			verifAssert(a[t] >= min && a[t]+uintptr(n[t]) <= max, "C20.conc.inside-reserve")
		}
	}
	if ok[0] && ok[1] {
		verifAssert(vDisjoint(a[0], n[0], a[1], n[1]), "C20.conc.disjoint")
		verifReached("C20.conc.both-ok")
	}
}

// VC_C20_conc3: three concurrent requesters of the fixed size goom uses (48).
func VC_C20_conc3() {
	min, max := vReserve()
	var a [3]uintptr
	var ok [3]bool
	for t := 0; t < 3; t++ {
		t := t
		verifSpawn(func() {
			p, _, err := acquireFromHolder(48)
			a[t], ok[t] = p, err == nil
		})
	}
	verifJoin()
	for t := 0; t < 3; t++ {
		if ok[t] {
			verifAssert(a[t] >= min && a[t]+48 <= max, "C20.conc3.inside-reserve")
		}
		for u := t + 1; u < 3; u++ {
			if ok[t] && ok[u] {
				verifAssert(vDisjoint(a[t], 48, a[u], 48), "C20.conc3.disjoint")
			}
		}
	}
	verifReached("C20.conc3")
}

// ---- Acquire / Write dispatch with the mmap path working or failing ----

var vMmapCount int
var vMmapAddr [4]uintptr
var vMmapLen [4]int

//verif:stub syscall.Mmap
func vStubMmap(fd int, offset int64, length int, prot int, flags int) ([]byte, error) {
	k := vMmapCount
	vMmapCount++
	if verifBool(vMmapFailNames[k]) {
		return nil, errors.New("mmap: cannot allocate memory")
	}
	// contract of mmap(2) MAP_ANON: a fresh region, disjoint from every existing mapping
	// (the earlier anonymous mappings and the program image that contains the reserve),
	// readable, writable and executable as requested
	verifAssert(prot == syscall.PROT_READ|syscall.PROT_WRITE|syscall.PROT_EXEC, "C20.mmap.prot-rwx")
	verifAssert(length > 0, "C20.mmap.len-positive")
	addr := verifUintptr(vMmapAddrNames[k])
	verifAssume(addr >= 4096)
	verifAssume(addr < vTop)
	verifAssume(addr%4096 == 0)
	verifAssume(vDisjoint(addr, length, placeHolderIns.min, int(placeHolderIns.max-placeHolderIns.min)))
	for i := 0; i < k; i++ {
		if vMmapLen[i] > 0 {
			verifAssume(vDisjoint(addr, length, vMmapAddr[i], vMmapLen[i]))
		}
	}
	vMmapAddr[k], vMmapLen[k] = addr, length
	return verifImgSlice(addr, length), nil
}

var vMmapFailNames = [4]string{"mmapFail0", "mmapFail1", "mmapFail2", "mmapFail3"}
var vMmapAddrNames = [4]string{"mmapAddr0", "mmapAddr1", "mmapAddr2", "mmapAddr3"}

// the reserve is in the text segment: writes must go through memory.WriteTo
var vWriteToCalls int

//verif:opt xcheck=off
// VC_C20_acquire: three requests of goom's stub size through Acquire, each with the mmap
// path working or failing arbitrarily: regions pairwise disjoint, large enough, and
// writable through Write (which must deliver the bytes to the region).
func VC_C20_acquire() {
	min, max := vReserve()
	vMmapCount = 0
	vProtLog = nil
	const sz = 48
	var sp [3]*Space
	for i := 0; i < 3; i++ {
		s, err := Acquire(sz)
		if err != nil {
			verifAssert(s == nil, "C20.acquire.error-has-no-space")
			continue
		}
		sp[i] = s
		if s.typ == TypeHolder {
			verifAssert(s.Addr >= min && s.Addr+sz <= max, "C20.acquire.reserve-inside")
		} else {
			verifAssert(s.typ == TypeMMap, "C20.acquire.known-type")
			verifAssert(verifSliceAddr(*s.Space) == s.Addr && len(*s.Space) >= sz, "C20.acquire.mmap-region")
		}
		for j := 0; j < i; j++ {
			if sp[j] != nil {
				verifAssert(vDisjoint(sp[j].Addr, sz, s.Addr, sz), "C20.acquire.disjoint")
			}
		}
	}
	verifReached("C20.acquire")
	// Write delivers exactly the data into the region
	for i := 0; i < 3; i++ {
		if sp[i] == nil {
			continue
		}
		data := verifBytes(vDataNames[i], 12)
		w0 := verifImgWrites()
		if err := Write(sp[i], data); err != nil {
			verifAssert(false, "C20.write.no-error")
		}
		if sp[i].Addr >= min && sp[i].Addr < max {
			// wherever Acquire says the region came from: a region that lies in the reserve
			// is program text (read+execute), so the page of every byte written must have
			// been made writable before the copy started (a plain store would fault)
			// (12 bytes span at most two pages: first and last byte cover both)
			verifAssert(vProtAt(sp[i].Addr, w0)&syscall.PROT_WRITE != 0, "C20.write.reserve-page-writable-when-written")
			verifAssert(vProtAt(sp[i].Addr+11, w0)&syscall.PROT_WRITE != 0, "C20.write.reserve-page-writable-when-written")
		}
		for k := 0; k < 12; k++ {
			verifAssert(verifImgLoad(sp[i].Addr+uintptr(k)) == data[k], "C20.write.delivered")
		}
	}
	verifReached("C20.write")
}

var vDataNames = [3]string{"data0", "data1", "data2"}

type vProt struct {
	addr   uintptr
	length int
	prot   int
	writes int // image stores performed before this call
}

var vProtLog []vProt

// mprotect(2) succeeds (linux/amd64) and is logged; what WriteTo asks of it in general is
// the subject of C14
//
//verif:stub syscall.Mprotect
func vStubMprotect(b []byte, prot int) error {
	vProtLog = append(vProtLog, vProt{addr: verifSliceAddr(b), length: len(b), prot: prot, writes: verifImgWrites()})
	return nil
}

// vProtAt: protection of the page containing a after the logged calls made before the
// image store number upto, starting from read+execute (text).
func vProtAt(a uintptr, upto int) int {
	cur := syscall.PROT_READ | syscall.PROT_EXEC
	for i := 0; i < len(vProtLog); i++ {
		e := vProtLog[i]
		if e.writes <= upto && a >= e.addr && a-e.addr < uintptr(e.length) {
			cur = e.prot
		}
	}
	return cur
}
