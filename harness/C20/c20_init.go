package stub

import (
	"reflect"

	"github.com/tencent/goom/internal/bytecode"
)

// The built-in reserve is the body of the assembly function Placeholder: the package
// initialiser has to set its bounds to exactly that body, also when the toolchain wraps
// assembly functions (the function value then leads to a wrapper, the body is elsewhere).

var (
	vInitEntry   uintptr // what the function value of Placeholder points to
	vInitInner   uintptr // the body the wrapper calls (0: not wrapped)
	vInitSizeIn  int     // extent of the function starting at the body
	vInitSizeOut int     // extent of the function starting at any other address
	vInitModel   bool
)

// native runs: what the package initialiser (holder.go, earlier in file order) set up,
// before any other harness replaces it
var vInitAtStart *PlaceHolder

func init() {
	if placeHolderIns != nil {
		c := *placeHolderIns
		vInitAtStart = &c
	}
}

// the disassembling helpers are the subject of C14/C16; here: their contract
//
//verif:stub github.com/tencent/goom/internal/bytecode.GetInnerFunc
func vStubGetInnerFunc(mode int, start uintptr) (uintptr, error) {
	if start == vInitEntry {
		return vInitInner, nil
	}
	return 0, nil
}

//verif:stub github.com/tencent/goom/internal/bytecode.GetFuncSize
func vStubGetFuncSize(mode int, start uintptr, minimal bool) (int, error) {
	body := vInitEntry
	if vInitInner != 0 {
		body = vInitInner
	}
	if start == body {
		return vInitSizeIn, nil
	}
	return vInitSizeOut, nil
}

// VC_C20_init: after the package initialiser, the reserve is exactly the body of
// Placeholder: it starts at the body, the bump pointer starts at its beginning and it ends
// where the body ends - whether or not the function value leads to a wrapper.
func VC_C20_init() {
	vInitEntry = reflect.ValueOf(Placeholder).Pointer()
	vInitModel = true
	if verifBool("wrapped") {
		vInitInner = verifUintptr("inner")
		verifAssume(vInitInner >= 4096)
		verifAssume(vInitInner < vTop)
		verifAssume(vInitInner != vInitEntry)
	}
	vInitSizeIn, vInitSizeOut = verifInt("bodySize"), verifInt("otherSize")
	verifAssume(vInitSizeIn > 0)
	verifAssume(vInitSizeIn <= 1<<20)
	verifAssume(vInitSizeOut > 0)
	verifAssume(vInitSizeOut <= 1<<20)
	placeHolderIns = nil
	if !verifRunInit(1) {
		placeHolderIns = vInitAtStart // native run: the initialiser ran at program start
	}
	// the reserve as the disassembler reports it (natively: the real helpers on the real
	// Placeholder; the initialiser has run at program start)
	body := reflect.ValueOf(Placeholder).Pointer()
	if in, err := bytecode.GetInnerFunc(64, body); in > 0 && err == nil {
		body = in
	}
	size, err := bytecode.GetFuncSize(64, body, false)
	verifAssert(err == nil, "C20.init.body-extent-known")
	verifAssert(placeHolderIns != nil, "C20.init.reserve-set-up")
	verifAssert(placeHolderIns.min == body, "C20.init.reserve-starts-at-body")
	verifAssert(placeHolderIns.off == placeHolderIns.min, "C20.init.bump-pointer-starts-at-reserve-start")
	verifAssert(placeHolderIns.max <= body+uintptr(size), "C20.init.reserve-ends-inside-body")
	verifAssert(placeHolderIns.max > placeHolderIns.min, "C20.init.reserve-not-empty")
	verifReached("C20.init")
}
