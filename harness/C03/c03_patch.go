package patch

// C03: the origin placeholder runs the unmodified original.

// vRelocate: L3 — fixRelativeAddr on one shape with every displacement/immediate byte,
// the function address and the placeholder address symbolic.
func vRelocate(s *vShape) {
	id := "C03." + s.name
	from, tramp := verifUintptr("from"), verifUintptr("tramp")
	verifAssume(from >= vTextLo)
	verifAssume(from < vTextHi)
	verifAssume(tramp >= vTextLo)
	verifAssume(tramp < vTextHi)
	verifApart(from, tramp, 256)
	fn := vInstantiate(s)
	vAssumeTargets(s, fn)
	var fixed []byte
	var n int
	var err error
	panicked := false
	func() {
		defer func() {
			if r := recover(); r != nil {
				panicked = true
			}
		}()
		fixed, n, err = fixRelativeAddr(from, fn, tramp, len(fn), 13)
	}()
	if panicked || err != nil {
		// refusing is always allowed (and writes nothing: fixRelativeAddr is pure)
		verifAssert(verifImgBytesWritten() == 0, id+".refusal-writes-nothing")
		verifReached(id + ".refused")
		return
	}
	verifAssert(n >= 13 && n <= len(fn), id+".covers-the-jump")
	vFaithful(s, fn, n, fixed, from, tramp, id)
	vNoReentry(s, fn, n, id)
	verifReached(id + ".relocated")
}

func VC_C03_zoo_00() { vRelocate(&vZoo[0]) }
func VC_C03_zoo_01() { vRelocate(&vZoo[1]) }
func VC_C03_zoo_02() { vRelocate(&vZoo[2]) }
func VC_C03_zoo_03() { vRelocate(&vZoo[3]) }
func VC_C03_zoo_04() { vRelocate(&vZoo[4]) }
func VC_C03_zoo_05() { vRelocate(&vZoo[5]) }
func VC_C03_zoo_06() { vRelocate(&vZoo[6]) }
func VC_C03_zoo_07() { vRelocate(&vZoo[7]) }
func VC_C03_zoo_08() { vRelocate(&vZoo[8]) }
func VC_C03_zoo_09() { vRelocate(&vZoo[9]) }
func VC_C03_zoo_10() { vRelocate(&vZoo[10]) }
func VC_C03_zoo_11() { vRelocate(&vZoo[11]) }
func VC_C03_zoo_12() { vRelocate(&vZoo[12]) }
func VC_C03_zoo_13() { vRelocate(&vZoo[13]) }
func VC_C03_zoo_14() { vRelocate(&vZoo[14]) }
func VC_C03_zoo_15() { vRelocate(&vZoo[15]) }
