package patch

// C03, composition: what fixOriginFuncToTrampoline writes into the placeholder is the
// relocated prefix (whose faithfulness the shape VCs decide) immediately followed by a
// jump that lands on the first instruction of the original that was not copied, with no
// register changed.

// a small function with the usual Go prologue (stack check with a rel8 JBE to the
// morestack block at the end, frame set-up) - 52 bytes
var vComposeFn = []byte{
	0x49, 0x3B, 0x66, 0x10, // 0x00 cmp rsp,[r14+0x10]
	0x76, 0x1D, // 0x04 jbe 0x23
	0x55,             // 0x06 push rbp
	0x48, 0x89, 0xE5, // 0x07 mov rbp,rsp
	0x48, 0x83, 0xEC, 0x10, // 0x0a sub rsp,0x10
	0x48, 0x8D, 0x40, 0x01, // 0x0e lea rax,[rax+1]
	0x48, 0x83, 0xC4, 0x10, // 0x12 add rsp,0x10
	0x5D, // 0x16 pop rbp
	0xC3, // 0x17 ret
	0xCC, 0xCC, 0xCC, 0xCC, 0xCC, 0xCC, 0xCC, 0xCC, 0xCC, 0xCC, 0xCC, // 0x18 padding
	0x48, 0x89, 0x44, 0x24, 0x08, // 0x23 mov [rsp+8],rax
	0xE8, 0x00, 0x10, 0x00, 0x00, // 0x28 call morestack
	0x48, 0x8B, 0x44, 0x24, 0x08, // 0x2d mov rax,[rsp+8]
	0xEB, 0xCC, // 0x32 jmp 0x00
}

func vComposePlaceholder(i int) int { return i }

// VC_C03_compose: PtrTrampoline with an origin placeholder on a concrete function at a
// symbolic address, placeholder at a symbolic address with room to spare.
func VC_C03_compose() {
	vReset()
	o := vNewTarget()
	o.size = len(vComposeFn)
	for i := 0; i < len(vComposeFn); i++ {
		verifImgStore(o.addr+uintptr(i), vComposeFn[i])
	}
	tramp := verifFuncCode(vComposePlaceholder)
	vTargets[vNumTargets] = vTarget{addr: tramp, size: 96}
	vNumTargets++
	verifApart(o.addr, tramp, 256)
	// what the relocator yields for this function (a pure function of its arguments)
	fn := make([]byte, len(vComposeFn))
	copy(fn, vComposeFn)
	fixed, n, ferr := fixRelativeAddr(o.addr, fn, tramp, len(fn), 13)
	mark := verifImgBytesWritten()
	g, err := PtrTrampoline(o.addr, vReplA, vComposePlaceholder)
	if err != nil || ferr != nil {
		verifAssert(verifImgBytesWritten() == mark, "C03.compose.refusal-writes-nothing")
		verifReached("C03.compose.refused")
		return
	}
	verifAssert(g.FixOriginFunc() == tramp, "C03.compose.origin-entry-is-the-placeholder")
	// the placeholder starts with exactly the relocated prefix
	for i := 0; i < len(fixed); i++ {
		verifAssert(verifImgLoad(tramp+uintptr(i)) == fixed[i], "C03.compose.placeholder-starts-with-relocated-prefix")
	}
	// directly followed by a jump to the first instruction that was not copied
	var m, m0 vx86
	m.havoc()
	m0 = m
	jumped := m.runFrom(uint64(tramp) + uint64(len(fixed)))
	verifAssert(m.ok && jumped, "C03.compose.jump-back-decodes")
	verifAssert(m.rip == uint64(o.addr)+uint64(n), "C03.compose.jump-back-lands-on-first-uncopied-instruction")
	verifAssert(m.sameExcept(&m0, -1), "C03.compose.jump-back-changes-no-register")
	// n is an instruction boundary of the original at or after the 13 entry bytes
	verifAssert(n == 14, "C03.compose.copied-whole-instructions-covering-the-jump")
	// the original's body is untouched until Apply
	for i := 0; i < len(vComposeFn); i++ {
		verifAssert(verifImgLoad(o.addr+uintptr(i)) == vComposeFn[i], "C03.compose.original-untouched-before-apply")
	}
	g.Apply()
	for i := 13; i < len(vComposeFn); i++ {
		verifAssert(verifImgLoad(o.addr+uintptr(i)) == vComposeFn[i], "C03.compose.original-tail-untouched")
	}
	verifReached("C03.compose")
}
