package patch

// Environment for C03's root-package unit: concrete extents for the functions the harness
// places (GetFuncSize itself scans machine code with the bundled decoder: C16).

// mprotect(2) succeeds (linux/amd64); its arguments are the subject of C14.
//
//verif:stub syscall.Mprotect
func vStubMprotect(b []byte, prot int) error { return nil }

var vSizeAddr [4]uintptr
var vSizeLen [4]int
var vSizeN int

// VerifSetFuncSize declares the extent of the function at addr.
func VerifSetFuncSize(addr uintptr, n int) {
	vSizeAddr[vSizeN], vSizeLen[vSizeN] = addr, n
	vSizeN++
}

//verif:stub github.com/tencent/goom/internal/bytecode.GetFuncSize
func vStubGetFuncSize(mode int, start uintptr, minimal bool) (int, error) {
	for i := 0; i < vSizeN; i++ {
		if vSizeAddr[i] == start {
			return vSizeLen[i], nil
		}
	}
	return 64, nil
}

// VerifResetPatches clears the global patch table and the extents between scenarios.
func VerifResetPatches() {
	patches = make(map[uintptr]*patch)
	vSizeN = 0
}

// VerifRelocated: what the relocator yields for code placed at from when moved to tramp
// (pure; its faithfulness is decided by the shape VCs of this check).
func VerifRelocated(from uintptr, code []byte, tramp uintptr) ([]byte, int, error) {
	fn := make([]byte, len(code))
	copy(fn, code)
	return fixRelativeAddr(from, fn, tramp, len(fn), 13)
}
