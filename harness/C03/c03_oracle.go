package patch

// C03 oracle (DESIGN App. D.1): relocation faithfulness of the bytes goom writes into an
// origin placeholder, stated over the *reference layout* of the input function (which
// bytes form an instruction, where its PC-relative field is). The layout of the hand-made
// shapes is given with them; for harvested shapes it comes from the toolchain's own
// decoder (generator).

type vIns struct {
	b     []byte // template bytes
	pcOff int    // offset of the PC-relative field inside the instruction (0: none)
	pcLen int    // 1 or 4
	free  []int  // additional byte positions that are symbolic (immediates, displacements)
	fixed bool   // keep every byte as given (function tail of harvested shapes)
}

// vIsJump: JMP/Jcc (control transfer without a return address); their PC-relative
// operand names a successor, so "lands on the next instruction after the copied prefix"
// may also be realised by falling into the appended jump back.
func (in *vIns) vIsJump() bool {
	if in.pcLen == 0 {
		return false
	}
	b := in.b
	return b[0] == 0xEB || b[0] == 0xE9 || b[0]&0xF0 == 0x70 || (b[0] == 0x0F && b[1]&0xF0 == 0x80)
}

type vShape struct {
	name string
	ins  []vIns
}

// vInstantiate builds the function's bytes: template bytes, with PC-relative fields and
// free positions replaced by symbolic bytes.
func vInstantiate(s *vShape) []byte {
	nfree := 0
	for _, in := range s.ins {
		if !in.fixed {
			nfree += in.pcLen + len(in.free)
		}
	}
	sym := verifBytes("ops", nfree)
	k := 0
	var fn []byte
	for _, in := range s.ins {
		base := len(fn)
		fn = append(fn, in.b...)
		if in.fixed {
			continue
		}
		for j := 0; j < in.pcLen; j++ {
			fn[base+in.pcOff+j] = sym[k]
			k++
		}
		for _, f := range in.free {
			fn[base+f] = sym[k]
			k++
		}
	}
	return fn
}

func vSext8(b byte) uint64 { return uint64(int64(int8(b))) }
func vLE32(b []byte) uint32 {
	return uint32(b[0]) | uint32(b[1])<<8 | uint32(b[2])<<16 | uint32(b[3])<<24
}
func vSext32(v uint32) uint64 { return uint64(int64(int32(v))) }

// vTargetOf: branch/reference target of instruction i as an offset from the function
// start (two's complement).
func vTargetOf(fn []byte, p int, in *vIns) uint64 {
	end := uint64(p + len(in.b))
	if in.pcLen == 1 {
		return end + vSext8(fn[p+in.pcOff])
	}
	return end + vSext32(vLE32(fn[p+in.pcOff:]))
}

// vAssumeTargets: every PC-relative target lies within +-2^28 of the function start
// (small code model) — the bound under which the claim is made.
func vAssumeTargets(s *vShape, fn []byte) {
	p := 0
	for i := range s.ins {
		in := &s.ins[i]
		if in.pcLen == 4 {
			t := int64(vTargetOf(fn, p, in))
			verifAssume(t > -(1 << 28))
			verifAssume(t < 1<<28)
		}
		p += len(in.b)
	}
}

// vFaithful checks fixed (the relocated copy of fn[0:n) placed at tramp) instruction by
// instruction. It returns false through assertions with the given id prefix.
func vFaithful(s *vShape, fn []byte, n int, fixed []byte, from, tramp uintptr, id string) {
	p, q := 0, 0
	for i := range s.ins {
		if p >= n {
			break
		}
		in := &s.ins[i]
		l := len(in.b)
		if in.pcLen == 0 {
			verifAssert(q+l <= len(fixed), id+".complete")
			if q+l > len(fixed) {
				return
			}
			same := true
			for j := 0; j < l; j++ {
				same = verifAnd(same, fixed[q+j] == fn[p+j])
			}
			verifAssert(same, id+".plain-instruction-copied-verbatim")
			p, q = p+l, q+l
			continue
		}
		T := vTargetOf(fn, p, in) // offset from `from`
		// where must the relocated instruction point? Targets inside the copied prefix
		// move with it; goom only lets offset 0 through (others are refused).
		inside := int64(T) >= 0 && int64(T) < int64(n)
		var wantAbs uint64
		if inside {
			wantAbs = uint64(tramp) + T // only T == 0 can occur here (see vNoReentry)
		} else {
			wantAbs = uint64(from) + T
		}
		verifAssert(q < len(fixed), id+".complete")
		if q >= len(fixed) {
			return
		}
		op := fixed[q]
		widened := false
		if in.pcLen == 1 && in.pcOff == 1 {
			orig := fn[p]
			if orig == 0xEB && op == 0xE9 {
				widened = true
				verifAssert(q+5 <= len(fixed), id+".complete")
				if q+5 > len(fixed) {
					return
				}
				got := uint64(tramp) + uint64(q+5) + vSext32(vLE32(fixed[q+1:]))
				verifAssert(verifOr(got == wantAbs, verifAnd(T == uint64(n), got == uint64(tramp)+uint64(len(fixed)))), id+".widened-jmp-target")
				p, q = p+l, q+5
			} else if orig&0xF0 == 0x70 && op == 0x0F {
				widened = true
				verifAssert(q+6 <= len(fixed), id+".complete")
				if q+6 > len(fixed) {
					return
				}
				verifAssert(fixed[q+1] == 0x80|(orig&0x0F), id+".widened-jcc-same-condition")
				got := uint64(tramp) + uint64(q+6) + vSext32(vLE32(fixed[q+2:]))
				verifAssert(verifOr(got == wantAbs, verifAnd(T == uint64(n), got == uint64(tramp)+uint64(len(fixed)))), id+".widened-jcc-target")
				p, q = p+l, q+6
			}
		}
		if widened {
			continue
		}
		// same size: bytes outside the field identical, field re-encoded
		verifAssert(q+l <= len(fixed), id+".complete")
		if q+l > len(fixed) {
			return
		}
		same := true
		for j := 0; j < l; j++ {
			if j < in.pcOff || j >= in.pcOff+in.pcLen {
				same = verifAnd(same, fixed[q+j] == fn[p+j])
			}
		}
		verifAssert(same, id+".bytes-outside-field-preserved")
		var got uint64
		if in.pcLen == 1 {
			got = uint64(tramp) + uint64(q+l) + vSext8(fixed[q+in.pcOff])
		} else {
			got = uint64(tramp) + uint64(q+l) + vSext32(vLE32(fixed[q+in.pcOff:]))
		}
		ok := got == wantAbs
		if in.vIsJump() {
			// a jump to the first byte after the copied prefix may fall into the jump back
			// that is appended there (it transfers to from+n)
			ok = verifOr(ok, verifAnd(T == uint64(n), got == uint64(tramp)+uint64(len(fixed))))
		}
		verifAssert(ok, id+".same-target")
		p, q = p+l, q+l
	}
	verifAssert(q == len(fixed), id+".no-extra-bytes")
}

// vNoReentry: after the mock is applied the first n bytes of the function hold the jump
// to the mock; no instruction of the function may branch into them. Offset 0 (the classic
// `morestack; JMP entry` block) is the known class F5.
func vNoReentry(s *vShape, fn []byte, n int, id string) {
	p := 0
	for i := range s.ins {
		in := &s.ins[i]
		if in.pcLen != 0 && p >= n {
			T := int64(vTargetOf(fn, p, in))
			verifAssert(!(T > 0 && T < int64(n)), id+".no-branch-into-overwritten-bytes")
			verifAssertClass(T != 0, id+".no-branch-back-to-entry", "F5")
		}
		p += len(in.b)
	}
}
