package patch

// hand-made prologue shapes (the zoo of DESIGN §4 C03). Each is a whole small function.

func vI(b ...byte) vIns                 { return vIns{b: b} }
func vRel8(b ...byte) vIns              { return vIns{b: b, pcOff: len(b) - 1, pcLen: 1} }
func vRel32(opLen int, b ...byte) vIns  { return vIns{b: b, pcOff: opLen, pcLen: 4} }
func vFree(in vIns, free ...int) vIns   { in.free = free; return in }

var (
	iCmpStack = vI(0x49, 0x3B, 0x66, 0x10)       // cmp rsp,[r14+0x10]
	iPushRbp  = vI(0x55)                         // push rbp
	iMovRbp   = vI(0x48, 0x89, 0xE5)             // mov rbp,rsp
	iSubRsp   = vFree(vI(0x48, 0x83, 0xEC, 0x18), 3) // sub rsp,imm8
	iAddRsp   = vI(0x48, 0x83, 0xC4, 0x18)
	iPopRbp   = vI(0x5D)
	iRet      = vI(0xC3)
	iInt3     = vI(0xCC)
	iNop      = vI(0x90)
	iMovRaxImm = vFree(vI(0x48, 0xB8, 0, 0, 0, 0, 0, 0, 0, 0), 2, 3, 4, 5, 6, 7, 8, 9) // movabs rax,imm64
	iLeaRax1  = vI(0x48, 0x8D, 0x40, 0x01)       // lea rax,[rax+1]
)

func iJbe() vIns   { return vRel8(0x76, 0) }
func iJe() vIns    { return vRel8(0x74, 0) }
func iJg() vIns    { return vRel8(0x7F, 0) }
func iJmp8() vIns  { return vRel8(0xEB, 0) }
func iJmp32() vIns { return vRel32(1, 0xE9, 0, 0, 0, 0) }
func iCall() vIns  { return vRel32(1, 0xE8, 0, 0, 0, 0) }
func iJbe32() vIns { return vRel32(2, 0x0F, 0x86, 0, 0, 0, 0) }
func iMovRip() vIns { return vRel32(3, 0x48, 0x8B, 0x05, 0, 0, 0, 0) }  // mov rax,[rip+d32]
func iLeaRip() vIns { return vRel32(3, 0x48, 0x8D, 0x0D, 0, 0, 0, 0) }  // lea rcx,[rip+d32]
func iCmpRipImm8() vIns { // cmp byte [rip+d32], imm8
	in := vRel32(2, 0x80, 0x3D, 0, 0, 0, 0, 0)
	in.free = []int{6}
	return in
}
func iCmpqRipImm8() vIns { // cmp qword [rip+d32], imm8
	in := vRel32(3, 0x48, 0x83, 0x3D, 0, 0, 0, 0, 0)
	in.free = []int{7}
	return in
}
func iMovRipImm32() vIns { // mov dword [rip+d32], imm32
	in := vRel32(2, 0xC7, 0x05, 0, 0, 0, 0, 0, 0, 0, 0)
	in.free = []int{6, 7, 8, 9}
	return in
}

func vTail() []vIns { // epilogue + padding + morestack block jumping back to the entry
	return []vIns{iLeaRax1, iAddRsp, iPopRbp, iRet, iInt3, iInt3, iInt3}
}

var vZoo = []vShape{
	{"std-jbe8", append([]vIns{iCmpStack, iJbe(), iPushRbp, iMovRbp, iSubRsp}, vTail()...)},
	{"jbe8-then-call", append([]vIns{iCmpStack, iJbe(), iPushRbp, iMovRbp, iCall()}, vTail()...)},
	{"jbe8-then-movrip", append([]vIns{iCmpStack, iJbe(), iMovRip(), iPushRbp}, vTail()...)},
	{"call-first", append([]vIns{iCall(), iMovRip(), iNop, iNop}, vTail()...)},
	{"cmp-rip-imm8", append([]vIns{iCmpRipImm8(), iJe(), iPushRbp, iMovRbp, iNop, iNop}, vTail()...)},
	{"cmpq-rip-imm8", append([]vIns{iCmpqRipImm8(), iJg(), iPushRbp, iMovRbp}, vTail()...)},
	{"mov-rip-imm32", append([]vIns{iMovRipImm32(), iPushRbp, iMovRbp}, vTail()...)},
	{"lea-rip-x2", append([]vIns{iLeaRip(), iMovRip(), iNop}, vTail()...)},
	{"jmp8-first", append([]vIns{iJmp8(), iNop, iNop, iNop, iNop, iNop, iNop, iNop, iNop, iNop, iNop, iNop}, vTail()...)},
	{"jmp32-first", append([]vIns{iJmp32(), iNop, iNop, iNop, iNop, iNop, iNop, iNop, iNop}, vTail()...)},
	{"jbe32", append([]vIns{iCmpStack, iJbe32(), iPushRbp, iMovRbp}, vTail()...)},
	{"movabs-then-je", append([]vIns{iMovRaxImm, iJe(), iNop, iNop}, vTail()...)},
	{"two-short-jumps", append([]vIns{iCmpStack, iJbe(), iJe(), iPushRbp, iMovRbp, iNop}, vTail()...)},
	{"ret-after-13", []vIns{iMovRaxImm, iMovRbp, iRet, iInt3, iInt3, iInt3, iInt3, iInt3, iInt3, iInt3, iInt3}},
	{"plain", append([]vIns{iPushRbp, iMovRbp, iSubRsp, iMovRaxImm}, vTail()...)},
	{"morestack-loop", []vIns{iCmpStack, iJbe(), iPushRbp, iMovRbp, iSubRsp, iLeaRax1, iAddRsp, iPopRbp, iRet, iCall(), vRel8(0xEB, 0)}},
}
