package mocker

import (
	"errors"

	"github.com/tencent/goom/internal/patch"
)

// C03 through the public API: Origin(placeholder) / Origin(&funcVariable) wire the
// placeholder to the relocated original.

func vC03Target(i int) int      { return i + 1 }
func vC03Placeholder(i int) int { return i + 2 }
func vC03Cb(i int) int          { return i + 1000 }

// the target's machine code: the usual Go prologue (stack check with a rel8 JBE to the
// morestack block at the end, frame set-up) - 52 bytes
var vC03Code = []byte{
	0x49, 0x3B, 0x66, 0x10, 0x76, 0x1D, 0x55, 0x48, 0x89, 0xE5, 0x48, 0x83, 0xEC, 0x10,
	0x48, 0x8D, 0x40, 0x01, 0x48, 0x83, 0xC4, 0x10, 0x5D, 0xC3,
	0xCC, 0xCC, 0xCC, 0xCC, 0xCC, 0xCC, 0xCC, 0xCC, 0xCC, 0xCC, 0xCC,
	0x48, 0x89, 0x44, 0x24, 0x08, 0xE8, 0x00, 0x10, 0x00, 0x00, 0x48, 0x8B, 0x44, 0x24, 0x08, 0xEB, 0xCC,
}

// VC_C03_origin_wiring: a function mock with an origin placeholder given as a function or
// as a pointer to a function variable: the placeholder's code is the relocated prefix of
// the target followed by a jump to the target's first un-copied instruction; the function
// variable ends up pointing at that code; the target's entry diverts to the callback and
// Reset restores the target.
func VC_C03_origin_wiring() {
	vEnv()
	e := verifFuncCode(vC03Target)
	tramp := verifFuncCode(vC03Placeholder)
	verifApart(e, tramp, 256)
	for i := 0; i < len(vC03Code); i++ {
		verifImgStore(e+uintptr(i), vC03Code[i])
	}
	patch.VerifSetFuncSize(e, len(vC03Code))
	patch.VerifSetFuncSize(tramp, 96)
	fixed, n, ferr := patch.VerifRelocated(e, vC03Code, tramp)
	verifAssert(ferr == nil, "C03.wiring.relocatable")
	if ferr != nil {
		return
	}
	b := Create()
	byPointer := verifBool("byPointer")
	var origin func(int) int = vC03Placeholder
	if byPointer {
		b.Func(vC03Target).Origin(&origin).Apply(vC03Cb)
		verifAssert(origin != nil && verifFuncCode(origin) == tramp, "C03.wiring.variable-points-at-the-relocated-original")
	} else {
		b.Func(vC03Target).Origin(vC03Placeholder).Apply(vC03Cb)
	}
	for i := 0; i < len(fixed); i++ {
		verifAssert(verifImgLoad(tramp+uintptr(i)) == fixed[i], "C03.wiring.placeholder-starts-with-relocated-prefix")
	}
	var m vx86
	m.havoc()
	m0 := m
	jumped := m.runFrom(uint64(tramp) + uint64(len(fixed)))
	verifAssert(m.ok && jumped, "C03.wiring.jump-back-decodes")
	verifAssert(m.rip == uint64(e)+uint64(n), "C03.wiring.jump-back-lands-on-first-uncopied-instruction")
	verifAssert(m.sameExcept(&m0, -1), "C03.wiring.jump-back-changes-no-register")
	// the target itself diverts to the callback
	f, ok := vInvoke(vC03Target, "C03.wiring").(func(int) int)
	verifAssert(ok, "C03.wiring.target-diverted")
	if ok {
		x := verifInt("x")
		verifAssert(f(x) == x+1000, "C03.wiring.target-reaches-callback")
	}
	b.Reset()
	for i := 0; i < len(vC03Code); i++ {
		verifAssert(verifImgLoad(e+uintptr(i)) == vC03Code[i], "C03.wiring.reset-restores-target")
	}
	verifReached("C03.wiring")
}

type vC03T struct{ n int }

func (t *vC03T) M(i int) int             { return i + 1 }
func vC03PlaceholderM(t *vC03T, i int) int { return i + 2 }
func vC03CbM(t *vC03T, i int) int          { return i + 2000 }

// the symbol lookup itself is the subject of C10
//
//verif:stub github.com/tencent/goom/internal/unexports2.FindFuncByName
func vC03FindFuncByName(name string) (uintptr, error) {
	switch name {
	case "github.com/tencent/goom.vC03Target":
		return verifFuncCode(vC03Target), nil
	case "github.com/tencent/goom.(*vC03T).M":
		return verifFuncCode((*vC03T).M), nil
	}
	return 0, errors.New("function symbol not found: " + name)
}

// VC_C03_origin_wiring_handles: the origin placeholder given through the other handles -
// a struct method (Struct(x).Method(m).Origin), a function by name (ExportFunc(n).Origin)
// and a method by name (ExportStruct(s).Method(m).Origin): the placeholder holds the
// relocated prefix of the target followed by the jump back to its first un-copied
// instruction, the target diverts to the callback, Reset restores the target.
func VC_C03_origin_wiring_handles() {
	vEnv()
	form := verifChoice("handle", 3)
	var target, holder interface{} = vC03Target, vC03Placeholder
	if form != 1 {
		target, holder = (*vC03T).M, vC03PlaceholderM
	}
	e := verifFuncCode(target)
	tramp := verifFuncCode(holder)
	verifApart(e, tramp, 256)
	for i := 0; i < len(vC03Code); i++ {
		verifImgStore(e+uintptr(i), vC03Code[i])
	}
	patch.VerifSetFuncSize(e, len(vC03Code))
	patch.VerifSetFuncSize(tramp, 96)
	fixed, n, ferr := patch.VerifRelocated(e, vC03Code, tramp)
	verifAssert(ferr == nil, "C03.wiring-handles.relocatable")
	if ferr != nil {
		return
	}
	b := Create()
	switch form {
	case 0:
		b.Struct(&vC03T{}).Method("M").Origin(vC03PlaceholderM).Apply(vC03CbM)
	case 1:
		b.ExportFunc("vC03Target").Origin(vC03Placeholder).Apply(vC03Cb)
	default:
		b.ExportStruct("*vC03T").Method("M").Origin(vC03PlaceholderM).Apply(vC03CbM)
	}
	for i := 0; i < len(fixed); i++ {
		verifAssert(verifImgLoad(tramp+uintptr(i)) == fixed[i], "C03.wiring-handles.placeholder-starts-with-relocated-prefix")
	}
	var m vx86
	m.havoc()
	m0 := m
	jumped := m.runFrom(uint64(tramp) + uint64(len(fixed)))
	verifAssert(m.ok && jumped, "C03.wiring-handles.jump-back-decodes")
	verifAssert(m.rip == uint64(e)+uint64(n), "C03.wiring-handles.jump-back-lands-on-first-uncopied-instruction")
	verifAssert(m.sameExcept(&m0, -1), "C03.wiring-handles.jump-back-changes-no-register")
	x := verifInt("x")
	if form == 1 {
		f, ok := vInvoke(target, "C03.wiring-handles").(func(int) int)
		verifAssert(ok && f(x) == x+1000, "C03.wiring-handles.target-reaches-callback")
	} else {
		f, ok := vInvoke(target, "C03.wiring-handles").(func(*vC03T, int) int)
		verifAssert(ok && f(&vC03T{}, x) == x+2000, "C03.wiring-handles.target-reaches-callback")
	}
	b.Reset()
	for i := 0; i < len(vC03Code); i++ {
		verifAssert(verifImgLoad(e+uintptr(i)) == vC03Code[i], "C03.wiring-handles.reset-restores-target")
	}
	verifReached("C03.wiring-handles")
}
