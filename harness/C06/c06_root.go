package mocker

import "errors"

// C06 (narrow): goom's own part of "method mocks replace exactly the named method":
// name -> method selection (reflect method table for exported methods, package/type/name
// string for unexported ones), the per-struct mocker cache, and the hand-over of the
// receiver. Names are chosen to be prefixes / case variants of each other.

type vT06 struct{ n int }

func (t *vT06) Get(i int) int    { return 1 }
func (t *vT06) GetAll(i int) int { return 2 }
func (t *vT06) get(i int) int    { return 3 }
func (t *vT06) getAll(i int) int { return 4 }

type vU06 struct{ n int }

func (u *vU06) Get(i int) int { return 5 }

var vC06Names = [4]string{"Get", "GetAll", "get", "getAll"}

func vC06Method(k int) interface{} {
	switch k {
	case 0:
		return (*vT06).Get
	case 1:
		return (*vT06).GetAll
	case 2:
		return (*vT06).get
	case 3:
		return (*vT06).getAll
	}
	return (*vU06).Get
}

var vC06Seen *vT06
var vC06SeenN int

func vC06Cb0(t *vT06, i int) int { vC06Seen, vC06SeenN = t, t.n; return i + 1000 }
func vC06Cb1(t *vT06, i int) int { vC06Seen, vC06SeenN = t, t.n; return i + 2000 }
func vC06Cb2(t *vT06, i int) int { vC06Seen, vC06SeenN = t, t.n; return i + 3000 }
func vC06Cb3(t *vT06, i int) int { vC06Seen, vC06SeenN = t, t.n; return i + 4000 }

var vC06Cbs = [4]interface{}{vC06Cb0, vC06Cb1, vC06Cb2, vC06Cb3}

// the symbol lookup itself is the subject of C10: exact address for the names of the
// corpus, an error for every other name (the stub directive is on vW06FindFuncByName,
// which falls back to this table)
func vC06FindFuncByName(name string) (uintptr, error) {
	switch name {
	case "github.com/tencent/goom.(*vT06).Get":
		return verifFuncCode((*vT06).Get), nil
	case "github.com/tencent/goom.(*vT06).GetAll":
		return verifFuncCode((*vT06).GetAll), nil
	case "github.com/tencent/goom.(*vT06).get":
		return verifFuncCode((*vT06).get), nil
	case "github.com/tencent/goom.(*vT06).getAll":
		return verifFuncCode((*vT06).getAll), nil
	case "github.com/tencent/goom.(*vU06).Get":
		return verifFuncCode((*vU06).Get), nil
	case "github.com/tencent/goom/internal/zzverifc06/v1/model.Account.fee":
		return verifFuncCode(vC06OtherFee()), nil
	case "github.com/tencent/goom.Account.fee":
		return verifFuncCode(Account.fee), nil
	case "other/pkg.(*vT06).get":
		return verifFuncCode(vOther06get), nil
	}
	return 0, errors.New("func not found: " + name)
}

func vC06Setup() {
	vEnv()
	for k := 0; k < 5; k++ {
		vPristine(vC06Method(k))
		for j := 0; j < k; j++ {
			verifApart(verifFuncCode(vC06Method(k)), verifFuncCode(vC06Method(j)), 32)
		}
	}
}

// vC06Mock mocks method k of vT06 with its own callback, through the API form `form`.
func vC06Mock(b *Builder, k, form int) {
	name := vC06Names[k]
	exported := k < 2
	switch {
	case exported && form == 0:
		b.Struct(&vT06{}).Method(name).Apply(vC06Cbs[k])
	case exported:
		b.Struct(&vT06{}).ExportMethod(name).Apply(vC06Cbs[k])
	case form == 0:
		b.Struct(&vT06{}).ExportMethod(name).Apply(vC06Cbs[k])
	default:
		b.ExportStruct("*vT06").Method(name).Apply(vC06Cbs[k])
	}
}

// vC06Calls: calling method k on two different instances reaches callback k with the
// receiver handed over unchanged and the caller's argument.
func vC06Calls(k int, id string) {
	f, ok := vInvoke(vC06Method(k), id).(func(*vT06, int) int)
	verifAssert(ok, id+".installed-has-method-signature")
	if !ok {
		return
	}
	x := verifInt("x")
	r1, r2 := &vT06{n: verifInt("n1")}, &vT06{n: verifInt("n2")}
	for _, r := range [2]*vT06{r1, r2} {
		n := r.n
		vC06Seen = nil
		got := f(r, x)
		verifAssert(got == x+1000*(k+1), id+".own-callback-with-callers-argument")
		verifAssert(vC06Seen == r && vC06SeenN == n && r.n == n, id+".receiver-handed-over-unchanged")
	}
}

// VC_C06_one: one method of four (names that are prefixes / case variants of each
// other), addressed in either of two API forms: exactly its entry window is written,
// every other method of the type and the same-named method of another type stay
// pristine, every instance reaches the callback; Reset restores.
func VC_C06_one() {
	vC06Setup()
	snap := verifImgSnap()
	b := Create()
	k := verifChoice("method", 4)
	form := verifChoice("form", 2)
	mark := verifImgBytesWritten()
	vC06Mock(b, k, form)
	e := verifFuncCode(vC06Method(k))
	for i := mark; i < verifImgBytesWritten(); i++ {
		verifAssert(verifImgWriteAddr(i)-e < 13, "C06.one.writes-only-the-named-methods-entry")
	}
	for j := 0; j < 5; j++ {
		if j == k {
			verifAssert(vDiverted(vC06Method(j)), "C06.one.named-method-mocked")
		} else {
			verifAssert(!vDiverted(vC06Method(j)), "C06.one.other-methods-untouched")
		}
	}
	vC06Calls(k, "C06.one")
	b.Reset()
	n := verifImgDistinctWritten()
	for i := 0; i < n; i++ {
		w := verifImgDistinctAddr(i)
		verifAssert(verifImgLoad(w) == verifImgAt(snap, w), "C06.one.reset-restores")
	}
	verifReached("C06.one")
}

// VC_C06_two: two different methods mocked in one builder (through one retained struct
// handle or separate lookups): each reaches its own callback, the remaining ones stay
// pristine.
func VC_C06_two() {
	vC06Setup()
	b := Create()
	k1 := verifChoice("first", 4)
	k2 := verifChoice("second", 4)
	if k1 == k2 {
		return
	}
	if k1 < 2 && k2 < 2 && verifBool("retainedHandle") {
		s := b.Struct(&vT06{})
		s.Method(vC06Names[k1]).Apply(vC06Cbs[k1])
		s.Method(vC06Names[k2]).Apply(vC06Cbs[k2])
	} else {
		vC06Mock(b, k1, verifChoice("form1", 2))
		vC06Mock(b, k2, verifChoice("form2", 2))
	}
	for j := 0; j < 5; j++ {
		verifAssert(vDiverted(vC06Method(j)) == (j == k1 || j == k2), "C06.two.exactly-the-named-methods-mocked")
	}
	vC06Calls(k1, "C06.two.first")
	vC06Calls(k2, "C06.two.second")
	b.Reset()
	for j := 0; j < 5; j++ {
		verifAssert(!vDiverted(vC06Method(j)), "C06.two.reset-restores")
	}
	verifReached("C06.two")
}

type vV06 struct{ n, m int }

func (v vV06) Val(i int) int      { return 6 }
func (v vV06) Value(i int) int    { return 7 }
func (v *vV06) PtrOnly(i int) int { return 8 }

func vC06CbP(v *vV06, i int) int { return i + 6000 }

var vC06SeenV vV06

func vC06CbV(v vV06, i int) int { vC06SeenV = v; return i + 5000 }

// VC_C06_value_receiver: a value-receiver method addressed through a value of the type:
// the method's own entry is patched (not its prefix-named sibling), the receiver value
// reaches the callback field for field.
func VC_C06_value_receiver() {
	vEnv()
	vPristine(vV06.Val)
	vPristine(vV06.Value)
	vPristine((*vV06).PtrOnly)
	// the compiler-generated pointer-receiver wrappers are functions of their own
	vPristine((*vV06).Val)
	vPristine((*vV06).Value)
	verifApart(verifFuncCode(vV06.Val), verifFuncCode((*vV06).Val), 32)
	verifApart(verifFuncCode(vV06.Value), verifFuncCode((*vV06).Val), 32)
	verifApart(verifFuncCode((*vV06).PtrOnly), verifFuncCode((*vV06).Val), 32)
	verifApart(verifFuncCode(vV06.Val), verifFuncCode(vV06.Value), 32)
	verifApart(verifFuncCode(vV06.Val), verifFuncCode((*vV06).PtrOnly), 32)
	verifApart(verifFuncCode(vV06.Value), verifFuncCode((*vV06).PtrOnly), 32)
	b := Create()
	// the pointer form of the same type may have been looked up (or its pointer-only
	// method mocked) in the same builder before: the value form is another method set
	before := verifChoice("pointerFormBefore", 3)
	if before == 1 {
		b.Struct(&vV06{})
	} else if before == 2 {
		b.Struct(&vV06{}).Method("PtrOnly").Apply(vC06CbP)
		verifAssert(vDiverted((*vV06).PtrOnly), "C06.value.pointer-only-method-mocked")
	}
	mark := verifImgBytesWritten()
	b.Struct(vV06{}).Method("Val").Apply(vC06CbV)
	e := verifFuncCode(vV06.Val)
	for i := mark; i < verifImgBytesWritten(); i++ {
		verifAssert(verifImgWriteAddr(i)-e < 13, "C06.value.writes-only-the-named-methods-entry")
	}
	verifAssert(vDiverted(vV06.Val), "C06.value.named-method-mocked")
	verifAssert(!vDiverted(vV06.Value), "C06.value.other-methods-untouched")
	verifAssert(!vDiverted((*vV06).Val), "C06.value.wrapper-untouched")
	f, ok := vInvoke(vV06.Val, "C06.value").(func(vV06, int) int)
	verifAssert(ok, "C06.value.installed-has-method-signature")
	if ok {
		r := vV06{n: verifInt("n1"), m: verifInt("m1")}
		x := verifInt("x")
		verifAssert(f(r, x) == x+5000, "C06.value.own-callback-with-callers-argument")
		verifAssert(vC06SeenV == r, "C06.value.receiver-handed-over-unchanged")
	}
	b.Reset()
	verifAssert(!vDiverted(vV06.Val) && !vDiverted(vV06.Value), "C06.value.reset-restores")
	verifReached("C06.value")
}

// vOther06get stands for the method get of a struct that is also called vT06 but lives in
// another package ("other/pkg.(*vT06).get").
func vOther06get(t *vT06, i int) int { return 8 }

func vC06CbOther(t *vT06, i int) int { return i + 9000 }

// VC_C06_same_name_other_package: an unexported struct of another package and a
// same-named one of the current package, mocked one after the other in either order in
// one builder: each name selects its own package's method.
func VC_C06_same_name_other_package() {
	vC06Setup()
	vPristine(vOther06get)
	for j := 0; j < 5; j++ {
		verifApart(verifFuncCode(vOther06get), verifFuncCode(vC06Method(j)), 32)
	}
	b := Create()
	if verifBool("otherFirst") {
		b.Pkg("other/pkg").ExportStruct("*vT06").Method("get").Apply(vC06CbOther)
		b.ExportStruct("*vT06").Method("get").Apply(vC06Cbs[2])
	} else {
		b.ExportStruct("*vT06").Method("get").Apply(vC06Cbs[2])
		b.Pkg("other/pkg").ExportStruct("*vT06").Method("get").Apply(vC06CbOther)
	}
	verifAssert(vDiverted((*vT06).get), "C06.pkg.current-package-method-mocked")
	verifAssert(vDiverted(vOther06get), "C06.pkg.other-package-method-mocked")
	vC06Calls(2, "C06.pkg.current")
	f, ok := vInvoke(vOther06get, "C06.pkg.other").(func(*vT06, int) int)
	verifAssert(ok, "C06.pkg.other.installed-has-method-signature")
	if ok {
		x := verifInt("x")
		verifAssert(f(&vT06{}, x) == x+9000, "C06.pkg.other.own-callback")
	}
	for j := 0; j < 5; j++ {
		if j != 2 {
			verifAssert(!vDiverted(vC06Method(j)), "C06.pkg.other-methods-untouched")
		}
	}
	b.Reset()
	verifAssert(!vDiverted((*vT06).get) && !vDiverted(vOther06get), "C06.pkg.reset-restores")
	verifReached("C06.pkg")
}

// names whose last letters collide with goom's own suffix handling ("-fm" is the suffix of
// method values): log/logf, su/sum, and one without a shorter sibling
type vW06 struct{ n int }

func (w *vW06) log(i int) int     { return 1 }
func (w *vW06) logf(i int) int    { return 2 }
func (w *vW06) su(i int) int      { return 3 }
func (w *vW06) sum(i int) int     { return 4 }
func (w *vW06) confirm(i int) int { return 5 }

var vW06Names = [5]string{"log", "logf", "su", "sum", "confirm"}

func vW06Method(k int) interface{} {
	switch k {
	case 0:
		return (*vW06).log
	case 1:
		return (*vW06).logf
	case 2:
		return (*vW06).su
	case 3:
		return (*vW06).sum
	}
	return (*vW06).confirm
}

func vW06Cb(w *vW06, i int) int { return i + 7000 }

//verif:stub github.com/tencent/goom/internal/unexports2.FindFuncByName
func vW06FindFuncByName(name string) (uintptr, error) {
	for k := 0; k < 5; k++ {
		if name == "github.com/tencent/goom.(*vW06)."+vW06Names[k] {
			return verifFuncCode(vW06Method(k)), nil
		}
	}
	return vC06FindFuncByName(name)
}

// VC_C06_suffix_names: unexported methods whose names end in letters goom treats
// specially elsewhere: exactly the named one is mocked (or the mock is refused), never a
// shorter-named sibling.
func VC_C06_suffix_names() {
	vEnv()
	for k := 0; k < 5; k++ {
		vPristine(vW06Method(k))
		for j := 0; j < k; j++ {
			verifApart(verifFuncCode(vW06Method(k)), verifFuncCode(vW06Method(j)), 32)
		}
	}
	b := Create()
	k := verifChoice("method", 5)
	panicked := false
	func() {
		defer func() {
			if r := recover(); r != nil {
				panicked = true
			}
		}()
		if verifBool("byStructName") {
			b.ExportStruct("*vW06").Method(vW06Names[k]).Apply(vW06Cb)
		} else {
			b.Struct(&vW06{}).ExportMethod(vW06Names[k]).Apply(vW06Cb)
		}
	}()
	verifAssert(!panicked, "C06.suffix.accepted")
	for j := 0; j < 5; j++ {
		if j == k {
			verifAssert(panicked || vDiverted(vW06Method(j)), "C06.suffix.named-method-mocked")
		} else {
			verifAssert(!vDiverted(vW06Method(j)), "C06.suffix.other-methods-untouched")
		}
	}
	if !panicked && vDiverted(vW06Method(k)) {
		f, ok := vInvoke(vW06Method(k), "C06.suffix").(func(*vW06, int) int)
		verifAssert(ok, "C06.suffix.installed-has-method-signature")
		if ok {
			x := verifInt("x")
			verifAssert(f(&vW06{}, x) == x+7000, "C06.suffix.own-callback")
		}
	}
	b.Reset()
	for j := 0; j < 5; j++ {
		verifAssert(!vDiverted(vW06Method(j)), "C06.suffix.reset-restores")
	}
	verifReached("C06.suffix")
}

// vC06Handle: the per-method mocker of method k through one of the by-name API forms.
func vC06Handle(b *Builder, k, form int) UnExportedMocker {
	if form == 0 {
		return b.Struct(&vT06{}).ExportMethod(vC06Names[k])
	}
	return b.ExportStruct("*vT06").Method(vC06Names[k])
}

// VC_C06_remock_after_reset: a method mocked by name, Reset (or the mocker cancelled),
// then the same method mocked again in the same builder - through a callback or through
// As(fn).Return(r): the second mock replaces the method for every instance like a first
// one (calls reach the callback / receive r), its siblings stay pristine; Reset restores.
func VC_C06_remock_after_reset() {
	vC06Setup()
	b := Create()
	k := verifChoice("method", 4)
	form := verifChoice("form", 2)
	if verifBool("firstViaReturn") {
		vC06Handle(b, k, form).As(vC06Cbs[k]).Return(7)
	} else {
		vC06Handle(b, k, form).Apply(vC06Cbs[k])
	}
	verifAssert(vDiverted(vC06Method(k)), "C06.remock.first-mock-installed")
	if verifBool("cancelOnly") {
		vC06Handle(b, k, form).Cancel()
	} else {
		b.Reset()
	}
	verifAssert(!vDiverted(vC06Method(k)), "C06.remock.undone-in-between")
	r := verifInt("r")
	viaReturn := verifBool("secondViaReturn")
	if viaReturn {
		vC06Handle(b, k, form).As(vC06Cbs[k]).Return(r)
	} else {
		vC06Handle(b, k, form).Apply(vC06Cbs[k])
	}
	for j := 0; j < 5; j++ {
		verifAssert(vDiverted(vC06Method(j)) == (j == k), "C06.remock.exactly-the-named-method-mocked-again")
	}
	if !viaReturn {
		vC06Calls(k, "C06.remock")
	} else if f, ok := vInvoke(vC06Method(k), "C06.remock.stub").(func(*vT06, int) int); ok {
		for _, recv := range [2]*vT06{{n: 1}, {n: verifInt("n2")}} {
			got, panicked := 0, false
			func() {
				defer func() {
					if e := recover(); e != nil {
						panicked = true
					}
				}()
				got = f(recv, verifInt("x"))
			}()
			verifAssert(!panicked && got == r, "C06.remock.stubbed-result-delivered-for-every-instance")
		}
	} else {
		verifAssert(false, "C06.remock.installed-has-method-signature")
	}
	b.Reset()
	for j := 0; j < 5; j++ {
		verifAssert(!vDiverted(vC06Method(j)), "C06.remock.reset-restores")
	}
	verifReached("C06.remock")
}

// VC_C06_typed_nil_instance: the struct type named by a typed nil pointer,
// Struct((*T)(nil)), for an unexported or exported method by name: the named method is
// mocked for every instance like with a non-nil instance.
func VC_C06_typed_nil_instance() {
	vC06Setup()
	b := Create()
	k := verifChoice("method", 4)
	panicked := false
	func() {
		defer func() {
			if r := recover(); r != nil {
				panicked = true
			}
		}()
		b.Struct((*vT06)(nil)).ExportMethod(vC06Names[k]).Apply(vC06Cbs[k])
	}()
	verifAssert(!panicked, "C06.typed-nil.accepted")
	for j := 0; j < 5; j++ {
		verifAssert(vDiverted(vC06Method(j)) == (j == k && !panicked), "C06.typed-nil.exactly-the-named-method-mocked")
	}
	if !panicked {
		vC06Calls(k, "C06.typed-nil")
	}
	b.Reset()
	for j := 0; j < 5; j++ {
		verifAssert(!vDiverted(vC06Method(j)), "C06.typed-nil.reset-restores")
	}
	verifReached("C06.typed-nil")
}
