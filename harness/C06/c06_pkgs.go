package mocker

import (
	v1 "github.com/tencent/goom/internal/zzverifc06/v1/model"
	v2 "github.com/tencent/goom/internal/zzverifc06/v2/model"
)

// Two struct types that share package name and type name (".../v1/model".User and
// ".../v2/model".User): their reflect type strings are both "*model.User".

func vC06CbV1(u *v1.User, i int) int { return i + 8001 }
func vC06CbV2(u *v2.User, i int) int { return i + 8002 }

// VC_C06_same_type_name: the method Load of one of the two types is mocked after the
// other type's mocker was looked up (and possibly applied, possibly reset) in the same or
// in another builder: the mock lands on the named type's method, the other type's method
// is not touched.
func VC_C06_same_type_name() {
	vEnv()
	vPristine((*v1.User).Load)
	vPristine((*v2.User).Load)
	verifApart(verifFuncCode((*v1.User).Load), verifFuncCode((*v2.User).Load), 32)
	b1 := Create()
	b2 := b1
	if verifBool("otherBuilder") {
		b2 = Create()
	}
	switch verifChoice("before", 3) {
	case 0: // the other type was only looked up
		b1.Struct(&v1.User{})
	case 1: // ... mocked and still live
		b1.Struct(&v1.User{}).Method("Load").Apply(vC06CbV1)
	case 2: // ... mocked and reset
		b1.Struct(&v1.User{}).Method("Load").Apply(vC06CbV1)
		b1.Reset()
	}
	v1Live := vDiverted((*v1.User).Load)
	panicked := false
	func() {
		defer func() {
			if r := recover(); r != nil {
				panicked = true
			}
		}()
		b2.Struct(&v2.User{}).Method("Load").Apply(vC06CbV2)
	}()
	verifAssert(!panicked, "C06.same-type-name.accepted")
	verifAssert(vDiverted((*v2.User).Load), "C06.same-type-name.named-types-method-mocked")
	verifAssert(vDiverted((*v1.User).Load) == v1Live, "C06.same-type-name.other-types-method-untouched")
	if vDiverted((*v2.User).Load) {
		f, ok := vInvoke((*v2.User).Load, "C06.same-type-name").(func(*v2.User, int) int)
		verifAssert(ok, "C06.same-type-name.installed-has-method-signature")
		if ok {
			x := verifInt("x")
			verifAssert(f(&v2.User{N: 5}, x) == x+8002, "C06.same-type-name.own-callback")
		}
	}
	b1.Reset()
	b2.Reset()
	verifAssert(!vDiverted((*v1.User).Load) && !vDiverted((*v2.User).Load), "C06.same-type-name.reset-restores")
	verifReached("C06.same-type-name")
}

// Account: the namesake, in the mocking package, of v1.Account (same type name, same
// unexported value-receiver method name)
type Account struct{ ID int }

func (a Account) fee(i int) int { return a.ID + i + 100 }

func vC06OtherFee() interface{} { return v1.FeeFunc() }

func vC06CbFee(a v1.Account, i int) int { return i + 8100 }

// VC_C06_value_form_other_package: an unexported value-receiver method of a struct type
// declared in another package, addressed through the value form Struct(T{}).ExportMethod:
// the named type's method is mocked, the same-named method of the same-named type of the
// mocking package is not; also when a Pkg override is pending.
func VC_C06_value_form_other_package() {
	vEnv()
	other, local := vC06OtherFee(), interface{}(Account.fee)
	vPristine(other)
	vPristine(local)
	verifApart(verifFuncCode(other), verifFuncCode(local), 32)
	b := Create()
	if verifBool("pkgOverride") {
		b.Pkg("some/other/pkg")
	}
	panicked := false
	func() {
		defer func() {
			if r := recover(); r != nil {
				panicked = true
			}
		}()
		b.Struct(v1.Account{}).ExportMethod("fee").Apply(vC06CbFee)
	}()
	verifAssert(!panicked, "C06.value-form.accepted")
	verifAssert(vDiverted(other), "C06.value-form.named-types-method-mocked")
	verifAssert(!vDiverted(local), "C06.value-form.namesake-untouched")
	if vDiverted(other) {
		f, ok := vInvoke(other, "C06.value-form").(func(v1.Account, int) int)
		verifAssert(ok, "C06.value-form.installed-has-method-signature")
		if ok {
			x := verifInt("x")
			verifAssert(f(v1.Account{ID: 5}, x) == x+8100, "C06.value-form.own-callback")
		}
	}
	b.Reset()
	verifAssert(!vDiverted(other) && !vDiverted(local), "C06.value-form.reset-restores")
	verifReached("C06.value-form")
}
