//go:build go1.18
// +build go1.18

package mocker

// C06 for methods of instantiated generic types. What reflect hands out for a method of an
// instantiation is a per-instantiation wrapper (runtime name pkg.(*T[...]).M) that calls
// the body shared by all instantiations of one GC shape; goom patches that body. The body
// behind a wrapper is found by bytecode.GetInnerFunc (checked on the toolchain's wrapper
// forms by VC_C06_inner_func); here it is replaced by the layout the compiler produces:
// one body per (shape, method).

type vG06[T any] struct {
	v T
	n int
}

func (g *vG06[T]) Len(i int) int { return 1 }
func (g *vG06[T]) Cap(i int) int { return 2 }

type vP06 struct{ a int }
type vQ06 struct{ b string }

var vG06Seen interface{}

func vG06CbInt(g *vG06[int], i int) int    { vG06Seen = g; return i + 1000 }
func vG06CbStr(g *vG06[string], i int) int { vG06Seen = g; return i + 1000 }
func vG06CbP(g *vG06[*vP06], i int) int    { vG06Seen = g; return i + 1000 }
func vG06CbQ(g *vG06[*vQ06], i int) int    { vG06Seen = g; return i + 1000 }

// instantiation k: wrappers of its two methods, its shape
func vG06Wrapper(k, m int) interface{} {
	switch k*2 + m {
	case 0:
		return (*vG06[int]).Len
	case 1:
		return (*vG06[int]).Cap
	case 2:
		return (*vG06[string]).Len
	case 3:
		return (*vG06[string]).Cap
	case 4:
		return (*vG06[*vP06]).Len
	case 5:
		return (*vG06[*vP06]).Cap
	case 6:
		return (*vG06[*vQ06]).Len
	}
	return (*vG06[*vQ06]).Cap
}

var vG06Shape = [4]int{0, 1, 2, 2} // int, string, pointer, pointer

// vG06Body[shape][method]: address of the shared body
var vG06Body [3][2]uintptr

//verif:stub github.com/tencent/goom/internal/bytecode.GetInnerFunc
func vG06GetInnerFunc(mode int, start uintptr) (uintptr, error) {
	for k := 0; k < 4; k++ {
		for m := 0; m < 2; m++ {
			if start == verifFuncCode(vG06Wrapper(k, m)) {
				return vG06Body[vG06Shape[k]][m], nil
			}
		}
	}
	return 0, nil
}

var vG06Names = [2]string{"Len", "Cap"}

// vG06Reach: the func value a call that arrives at code address e reaches now (nil while
// the bytes there are pristine).
func vG06Reach(e uintptr, id string) interface{} {
	if verifImgLoad(e) != 0x90 {
		return nil
	}
	var m vx86
	m.ok = true
	jumped := m.runFrom(uint64(e))
	verifAssert(m.ok && jumped, id+".entry-decodes")
	f := verifFuncAt(uintptr(m.regs[2]))
	verifAssert(f != nil, id+".reaches-known-func-value")
	if f != nil {
		verifAssert(uint64(verifFuncCode(f)) == m.rip, id+".lands-on-its-code")
	}
	return f
}

// VC_C06_generic_method: one method of one instantiation mocked by name: exactly the body
// of that instantiation's shape and that method is diverted - no wrapper, no other
// method's body, no body of another shape; a call arriving there reaches the callback
// with the receiver and the argument; Reset restores.
func VC_C06_generic_method() {
	vEnv()
	var all []uintptr
	for s := 0; s < 3; s++ {
		for m := 0; m < 2; m++ {
			a := verifUintptr("body." + vG06ShapeNames[s] + "." + vG06Names[m])
			verifAssume(a >= 0x400000)
			verifAssume(a < 0x40000000)
			verifAssume(verifImgLoad(a) != 0x90)
			vG06Body[s][m] = a
			all = append(all, a)
		}
	}
	for k := 0; k < 4; k++ {
		for m := 0; m < 2; m++ {
			all = append(all, vPristine(vG06Wrapper(k, m)))
		}
	}
	for i := range all {
		for j := 0; j < i; j++ {
			verifApart(all[i], all[j], 32)
		}
	}
	k := verifChoice("instantiation", 4)
	m := verifChoice("method", 2)
	b := Create()
	x, n := verifInt("x"), verifInt("n")
	var recv interface{}
	switch k {
	case 0:
		b.Struct(&vG06[int]{}).Method(vG06Names[m]).Apply(vG06CbInt)
		recv = &vG06[int]{n: n}
	case 1:
		b.Struct(&vG06[string]{}).Method(vG06Names[m]).Apply(vG06CbStr)
		recv = &vG06[string]{n: n}
	case 2:
		b.Struct(&vG06[*vP06]{}).Method(vG06Names[m]).Apply(vG06CbP)
		recv = &vG06[*vP06]{n: n}
	default:
		b.Struct(&vG06[*vQ06]{}).Method(vG06Names[m]).Apply(vG06CbQ)
		recv = &vG06[*vQ06]{n: n}
	}
	for s := 0; s < 3; s++ {
		for mm := 0; mm < 2; mm++ {
			div := verifImgLoad(vG06Body[s][mm]) == 0x90
			verifAssert(div == (s == vG06Shape[k] && mm == m), "C06.generic.exactly-the-shapes-method-body-diverted")
		}
	}
	for kk := 0; kk < 4; kk++ {
		for mm := 0; mm < 2; mm++ {
			verifAssert(!vDiverted(vG06Wrapper(kk, mm)), "C06.generic.wrappers-untouched")
		}
	}
	f := vG06Reach(vG06Body[vG06Shape[k]][m], "C06.generic")
	verifAssert(f != nil, "C06.generic.body-reaches-a-replacement")
	vG06Seen = nil
	got, ok := -1, true
	switch k {
	case 0:
		if g, is := f.(func(*vG06[int], int) int); is {
			got = g(recv.(*vG06[int]), x)
		} else {
			ok = false
		}
	case 1:
		if g, is := f.(func(*vG06[string], int) int); is {
			got = g(recv.(*vG06[string]), x)
		} else {
			ok = false
		}
	case 2:
		if g, is := f.(func(*vG06[*vP06], int) int); is {
			got = g(recv.(*vG06[*vP06]), x)
		} else {
			ok = false
		}
	default:
		if g, is := f.(func(*vG06[*vQ06], int) int); is {
			got = g(recv.(*vG06[*vQ06]), x)
		} else {
			ok = false
		}
	}
	verifAssert(ok, "C06.generic.installed-has-method-signature")
	if ok {
		verifAssert(got == x+1000, "C06.generic.own-callback-with-callers-argument")
		verifAssert(vG06Seen == recv, "C06.generic.receiver-handed-over-unchanged")
	}
	b.Reset()
	for s := 0; s < 3; s++ {
		for mm := 0; mm < 2; mm++ {
			verifAssert(verifImgLoad(vG06Body[s][mm]) != 0x90, "C06.generic.reset-restores")
		}
	}
	verifReached("C06.generic")
}

var vG06ShapeNames = [3]string{"int", "string", "ptr"}
