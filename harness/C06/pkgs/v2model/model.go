// Package model (v2): a struct type with the same package name and type name as v1's.
package model

// User of the second API version.
type User struct{ N int }

// Load of v2.
func (u *User) Load(i int) int { return u.N + 2013 }
