// Package model (v1): a struct type with the same package name and type name as v2's.
package model

// User of the first API version.
type User struct{ N int }

// Load of v1.
func (u *User) Load(i int) int { return u.N + 1011 }

// Account has an unexported value-receiver method; a same-named type with a same-named
// method exists in the package that mocks it.
type Account struct{ ID int }

func (a Account) fee(i int) int { return a.ID + i }

// Fee calls the unexported method.
func (a Account) Fee(i int) int { return a.fee(i) }

// FeeFunc hands out the unexported method (as a method expression) so that a harness in
// another package can name its code.
func FeeFunc() interface{} { return Account.fee }
