// Package model (v1): a struct type with the same package name and type name as v2's.
package model

// User of the first API version.
type User struct{ N int }

// Load of v1.
func (u *User) Load(i int) int { return u.N + 1011 }
