package arg

import "reflect"

// C18: argument expressions form a consistent predicate algebra.

func vEval(e Expr, a interface{}, t reflect.Type, id string) bool {
	if err := e.Resolve([]reflect.Type{t}, false); err != nil {
		verifAssert(false, id+".resolve-no-error")
	}
	av := reflect.ValueOf(a)
	if a == nil {
		av = reflect.Zero(t)
	}
	r, err := e.Eval([]reflect.Value{av}, false)
	verifAssert(err == nil, id+".eval-no-error")
	return r
}

// vAlgebra checks, for pattern x, alternatives y, z and argument a of one type whose Go
// equalities are given: Equals(x)(a) <=> x==a, symmetry, In = union, purity, Any.
func vAlgebra(x, y, z, a interface{}, t reflect.Type, xa, ya, za bool, id string) {
	e := Equals(x)
	r1 := vEval(e, a, t, id)
	verifAssert(r1 == xa, id+".equals-is-go-equality")
	// evaluating again gives the same answer (purity)
	av := reflect.ValueOf(a)
	if a == nil {
		av = reflect.Zero(t)
	}
	r2, _ := e.Eval([]reflect.Value{av}, false)
	verifAssert(r2 == r1, id+".eval-twice-same")
	// symmetric in pattern and argument
	verifAssert(vEval(Equals(a), x, t, id) == r1, id+".symmetric")
	// In = union of Equals
	in := In(x, y, z)
	ri := vEval(in, a, t, id)
	verifAssert(ri == (xa || ya || za), id+".in-is-union")
	ri2, _ := in.Eval([]reflect.Value{av}, false)
	verifAssert(ri2 == ri, id+".in-twice-same")
	verifAssert(vEval(Any(), a, t, id), id+".any-accepts")
	verifReached(id)
}

func VC_C18_int() {
	x, y, z, a := verifInt("x"), verifInt("y"), verifInt("z"), verifInt("a")
	vAlgebra(x, y, z, a, reflect.TypeOf(int(0)), x == a, y == a, z == a, "C18.int")
}

func VC_C18_int8() {
	x, y, z, a := int8(verifU8("x")), int8(verifU8("y")), int8(verifU8("z")), int8(verifU8("a"))
	vAlgebra(x, y, z, a, reflect.TypeOf(int8(0)), x == a, y == a, z == a, "C18.int8")
}

func VC_C18_int16() {
	x, y, z, a := int16(verifU16("x")), int16(verifU16("y")), int16(verifU16("z")), int16(verifU16("a"))
	vAlgebra(x, y, z, a, reflect.TypeOf(int16(0)), x == a, y == a, z == a, "C18.int16")
}

func VC_C18_int32() {
	x, y, z, a := verifI32("x"), verifI32("y"), verifI32("z"), verifI32("a")
	vAlgebra(x, y, z, a, reflect.TypeOf(int32(0)), x == a, y == a, z == a, "C18.int32")
}

func VC_C18_int64() {
	x, y, z, a := int64(verifU64("x")), int64(verifU64("y")), int64(verifU64("z")), int64(verifU64("a"))
	vAlgebra(x, y, z, a, reflect.TypeOf(int64(0)), x == a, y == a, z == a, "C18.int64")
}

func VC_C18_uint() {
	x, y, z, a := uint(verifU64("x")), uint(verifU64("y")), uint(verifU64("z")), uint(verifU64("a"))
	vAlgebra(x, y, z, a, reflect.TypeOf(uint(0)), x == a, y == a, z == a, "C18.uint")
}

func VC_C18_uint8() {
	x, y, z, a := verifU8("x"), verifU8("y"), verifU8("z"), verifU8("a")
	vAlgebra(x, y, z, a, reflect.TypeOf(uint8(0)), x == a, y == a, z == a, "C18.uint8")
}

func VC_C18_uint16() {
	x, y, z, a := verifU16("x"), verifU16("y"), verifU16("z"), verifU16("a")
	vAlgebra(x, y, z, a, reflect.TypeOf(uint16(0)), x == a, y == a, z == a, "C18.uint16")
}

func VC_C18_uint32() {
	x, y, z, a := verifU32("x"), verifU32("y"), verifU32("z"), verifU32("a")
	vAlgebra(x, y, z, a, reflect.TypeOf(uint32(0)), x == a, y == a, z == a, "C18.uint32")
}

func VC_C18_uint64() {
	x, y, z, a := verifU64("x"), verifU64("y"), verifU64("z"), verifU64("a")
	vAlgebra(x, y, z, a, reflect.TypeOf(uint64(0)), x == a, y == a, z == a, "C18.uint64")
}

func VC_C18_uintptr() {
	x, y, z, a := verifUintptr("x"), verifUintptr("y"), verifUintptr("z"), verifUintptr("a")
	vAlgebra(x, y, z, a, reflect.TypeOf(uintptr(0)), x == a, y == a, z == a, "C18.uintptr")
}

func VC_C18_bool() {
	x, y, z, a := verifBool("x"), verifBool("y"), verifBool("z"), verifBool("a")
	vAlgebra(x, y, z, a, reflect.TypeOf(false), x == a, y == a, z == a, "C18.bool")
}

var vStrs = [4]string{"", "a", "ab", "0"}

func VC_C18_string() {
	x, y, z, a := vStrs[verifChoice("x", 4)], vStrs[verifChoice("y", 4)], vStrs[verifChoice("z", 4)], vStrs[verifChoice("a", 4)]
	vAlgebra(x, y, z, a, reflect.TypeOf(""), x == a, y == a, z == a, "C18.string")
}

// pointers compare by pointee; two nil pointers are equal; nil vs non-nil differ
func VC_C18_ptr() {
	vals := [3]int{verifInt("p0"), verifInt("p1"), verifInt("p2")}
	pick := func(name string) (*int, bool, int) {
		k := verifChoice(name, 4)
		if k == 3 {
			return nil, true, 0
		}
		return &vals[k], false, vals[k]
	}
	x, xn, xv := pick("x")
	y, yn, yv := pick("y")
	z, zn, zv := pick("z")
	a, an, av := pick("a")
	eq := func(pn bool, pv int) bool {
		if pn || an {
			return pn && an
		}
		return pv == av
	}
	vAlgebra(x, y, z, a, reflect.TypeOf((*int)(nil)), eq(xn, xv), eq(yn, yv), eq(zn, zv), "C18.ptr")
}

type vS struct {
	A int
	B string
}

// composites: deep equality
func VC_C18_struct() {
	mk := func(n string) vS { return vS{A: verifInt(n), B: vStrs[verifChoice(n+".s", 2)]} }
	x, y, z, a := mk("x"), mk("y"), mk("z"), mk("a")
	vAlgebra(x, y, z, a, reflect.TypeOf(vS{}), x == a, y == a, z == a, "C18.struct")
}

func vF1() {}
func vF2() {}

// funcs: by identity (distinct top-level functions); a nil func equals only nil
func VC_C18_func() {
	fs := [3]func(){vF1, vF2, nil}
	xi, yi, zi, ai := verifChoice("x", 3), verifChoice("y", 3), verifChoice("z", 3), verifChoice("a", 3)
	vAlgebra(fs[xi], fs[yi], fs[zi], fs[ai], reflect.TypeOf(vF1), xi == ai, yi == ai, zi == ai, "C18.func")
}

// interface-typed parameter holding same-typed dynamic values
func VC_C18_iface_int() {
	x, y, z, a := verifInt("x"), verifInt("y"), verifInt("z"), verifInt("a")
	var t interface{}
	_ = t
	vAlgebra(x, y, z, a, reflect.TypeOf((*interface{})(nil)).Elem(), x == a, y == a, z == a, "C18.iface-int")
}

// vArgValue: the reflect.Value a mocked call delivers for an argument of declared type t
// (interface-typed parameters arrive as interface-kinded Values).
func vArgValue(a interface{}, t reflect.Type) reflect.Value {
	if t.Kind() == reflect.Interface {
		p := reflect.New(t)
		if a != nil {
			p.Elem().Set(reflect.ValueOf(a))
		}
		return p.Elem()
	}
	if a == nil {
		return reflect.Zero(t)
	}
	return reflect.ValueOf(a)
}

// VC_C18_iface_mixed: an interface{} parameter whose pattern and argument are drawn from
// {int v, *int -> v, (*int)(nil), **int -> *int -> v, **int -> nil, untyped nil}. Go
// equality of interfaces needs identical dynamic types; pointers compare by pointee (one
// level); evaluating never panics.
func VC_C18_iface_mixed() {
	v1, v2 := verifInt("v1"), verifInt("v2")
	p1, p2 := &v1, &v2
	var np *int
	pp1, ppn := &p1, &np
	type cand struct {
		val  interface{}
		kind int // dynamic type class
		n    int // pointee value where meaningful
		nilp bool
	}
	cs := []cand{
		{v1, 0, v1, false}, {v2, 0, v2, false},
		{p1, 1, v1, false}, {p2, 1, v2, false}, {np, 1, 0, true},
		{pp1, 2, v1, false}, {ppn, 2, 0, true},
		{nil, 3, 0, true},
	}
	x := cs[verifChoice("x", len(cs))]
	a := cs[verifChoice("a", len(cs))]
	t := reflect.TypeOf((*interface{})(nil)).Elem()
	e := Equals(x.val)
	if err := e.Resolve([]reflect.Type{t}, false); err != nil {
		verifAssert(false, "C18.iface-mixed.resolve-no-error")
	}
	r, err := e.Eval([]reflect.Value{vArgValue(a.val, t)}, false)
	verifAssert(err == nil, "C18.iface-mixed.eval-no-error")
	var want bool
	switch {
	case x.kind != a.kind:
		want = false
	case x.kind == 3:
		want = true
	case x.kind == 0:
		want = x.n == a.n
	case x.kind == 1:
		// pointers by pointee; two nil pointers are equal
		if x.nilp || a.nilp {
			want = x.nilp && a.nilp
		} else {
			want = x.n == a.n
		}
	default:
		// pointer to pointer: one level is dereferenced, the inner pointers are then
		// compared deeply (pointee values; nil only equals nil)
		if x.nilp || a.nilp {
			want = x.nilp && a.nilp
		} else {
			want = x.n == a.n
		}
	}
	verifAssert(r == want, "C18.iface-mixed.equals-is-go-equality")
	verifReached("C18.iface-mixed")
}

var vC18Floats = [6]float64{0, 1.5, -2.25, 1e300, 3, 0.1}

// VC_C18_float64: ordinary floating-point values (a concrete corpus: the engine has no
// symbolic floats): Equals is Go equality, symmetric, In is the union.
func VC_C18_float64() {
	x := vC18Floats[verifChoice("x", 6)]
	y := vC18Floats[verifChoice("y", 6)]
	a := vC18Floats[verifChoice("a", 6)]
	vAlgebra(x, y, y, a, reflect.TypeOf(float64(0)), x == a, y == a, y == a, "C18.float64")
}

// VC_C18_float32: the same for float32.
func VC_C18_float32() {
	x := float32(vC18Floats[verifChoice("x", 6)])
	a := float32(vC18Floats[verifChoice("a", 6)])
	vAlgebra(x, a, x, a, reflect.TypeOf(float32(0)), x == a, true, x == a, "C18.float32")
}

// composites that Go itself cannot compare with ==: deep equality element by element,
// lengths included; a nil slice/map equals only nil
func VC_C18_slice() {
	mk := func(n string) ([]int, int, int, int) {
		l := verifChoice(n+".len", 4) // 3 = nil
		v0, v1 := verifInt(n+"0"), verifInt(n+"1")
		if l == 3 {
			return nil, 3, 0, 0
		}
		return []int{v0, v1}[:l], l, v0, v1
	}
	x, xl, x0, x1 := mk("x")
	a, al, a0, a1 := mk("a")
	eq := xl == al
	if eq && xl >= 1 && xl < 3 {
		eq = verifAnd(eq, x0 == a0)
	}
	if xl == al && xl == 2 {
		eq = verifAnd(eq, x1 == a1)
	}
	vAlgebra(x, a, x, a, reflect.TypeOf([]int(nil)), eq, true, eq, "C18.slice")
}

func VC_C18_array() {
	x := [2]int{verifInt("x0"), verifInt("x1")}
	y := [2]int{verifInt("y0"), verifInt("y1")}
	a := [2]int{verifInt("a0"), verifInt("a1")}
	vAlgebra(x, y, y, a, reflect.TypeOf([2]int{}), x == a, y == a, y == a, "C18.array")
}

func VC_C18_map() {
	mk := func(n string, l int) (map[string]int, int, int) { // l: 0 = nil, 1, 2 entries
		v0, v1 := verifInt(n+"0"), verifInt(n+"1")
		switch l {
		case 0:
			return nil, 0, 0
		case 1:
			return map[string]int{"k": v0}, v0, 0
		}
		return map[string]int{"k": v0, "l": v1}, v0, v1
	}
	xl, al := verifChoice("x.len", 3), verifChoice("a.len", 3)
	x, x0, x1 := mk("x", xl)
	a, a0, a1 := mk("a", al)
	eq := xl == al
	if eq && xl >= 1 {
		eq = verifAnd(eq, x0 == a0)
	}
	if xl == al && xl == 2 {
		eq = verifAnd(eq, x1 == a1)
	}
	vAlgebra(x, a, x, a, reflect.TypeOf(map[string]int(nil)), eq, true, eq, "C18.map")
}

type vArr2 [2]int

// VC_C18_iface_kinds: an interface-typed parameter whose pattern and argument have
// different dynamic kinds (func, int, float, struct, array, string, bool-free): never a
// panic, equal only when the dynamic types agree and the values are equal; In is the union.
func VC_C18_iface_kinds() {
	n := verifInt("n")
	type cand struct {
		val  interface{}
		kind int
		n    int
	}
	cs := []cand{
		{vF1, 0, 1}, {vF2, 0, 2},
		{n, 1, n}, {7, 1, 7},
		{2.5, 2, 0},
		{vS{A: n, B: "b"}, 3, n},
		{vArr2{n, 1}, 4, n},
		{"s", 5, 0},
	}
	xi, ai := verifChoice("x", len(cs)), verifChoice("a", len(cs))
	x, a := cs[xi], cs[ai]
	t := reflect.TypeOf((*interface{})(nil)).Elem()
	eval := func(e Expr) (r bool, panicked bool) {
		defer func() {
			if p := recover(); p != nil {
				panicked = true
			}
		}()
		if err := e.Resolve([]reflect.Type{t}, false); err != nil {
			verifAssert(false, "C18.iface-kinds.resolve-no-error")
		}
		r, err := e.Eval([]reflect.Value{vArgValue(a.val, t)}, false)
		verifAssert(err == nil, "C18.iface-kinds.eval-no-error")
		return r, false
	}
	want := x.kind == a.kind && x.n == a.n
	r, p := eval(Equals(x.val))
	verifAssert(!p, "C18.iface-kinds.no-panic")
	if !p {
		verifAssert(r == want, "C18.iface-kinds.equal-only-same-kind-and-value")
	}
	// In(x, a) always accepts a, whatever kind x has
	r2, p2 := eval(In(x.val, a.val))
	verifAssert(!p2, "C18.iface-kinds.in-no-panic")
	if !p2 {
		verifAssert(r2, "C18.iface-kinds.in-is-union")
	}
	verifReached("C18.iface-kinds")
}
