package arg

import (
	"errors"
	"reflect"
	"unsafe"
)

// C09: stubbed values reach callers unaltered and typed as the function declares.

type vS1 struct{ A, B int }
type vS2 struct{ X, Y int }      // identical layout: may stand in for vS1
type vS3 struct{ A, B, C int }   // larger
type vS4 struct{ A int }         // smaller
type vErr struct{ code int }

func (e *vErr) Error() string { return "vErr" }

func vTypeOf(v interface{}) reflect.Type { return reflect.TypeOf(v) }

var vErrorT = reflect.TypeOf((*error)(nil)).Elem()
var vAnyT = reflect.TypeOf((*interface{})(nil)).Elem()

// vOne converts one supplied value for a declared type; conversion failure is reported as
// (invalid, err); a panic at configuration time is recovered and reported as rejected.
func vOne(val interface{}, t reflect.Type) (v reflect.Value, rejected bool, panicked bool) {
	defer func() {
		if r := recover(); r != nil {
			rejected, panicked = true, true
		}
	}()
	vs, err := I2V([]interface{}{val}, []reflect.Type{t}, false)
	if err != nil {
		return reflect.Value{}, true, false
	}
	return vs[0], false, false
}

// VC_C09_nil_to_typed_zero: nil becomes the typed zero value for pointer, interface,
// slice, map, channel and func results, without panicking.
func VC_C09_nil_to_typed_zero() {
	ts := []reflect.Type{
		vTypeOf((*int)(nil)), vErrorT, vAnyT, vTypeOf([]int(nil)), vTypeOf(map[string]int(nil)),
		vTypeOf((chan int)(nil)), vTypeOf((func())(nil)), vTypeOf((*vS1)(nil)), vTypeOf((func(int) error)(nil)),
	}
	t := ts[verifChoice("type", len(ts))]
	v, rejected, panicked := vOne(nil, t)
	verifAssert(!panicked, "C09.nil.no-panic")
	verifAssert(!rejected, "C09.nil.accepted")
	if rejected {
		return
	}
	verifAssert(v.IsValid() && v.Type() == t, "C09.nil.typed-as-declared")
	verifAssert(v.IsNil(), "C09.nil.is-zero")
	// what the caller receives compares equal to nil
	out := V2I([]reflect.Value{v}, []reflect.Type{t})
	if t.Kind() == reflect.Interface || t.Kind() == reflect.Ptr {
		verifAssert(out[0] == nil, "C09.nil.caller-sees-nil")
	}
	verifReached("C09.nil")
}

// VC_C09_scalars_unaltered: scalar values are delivered bit for bit with the declared type.
func VC_C09_scalars_unaltered() {
	switch verifChoice("kind", 6) {
	case 0:
		x := verifInt("x")
		v, rej, _ := vOne(x, vTypeOf(int(0)))
		verifAssert(!rej && v.Kind() == reflect.Int && int(v.Int()) == x, "C09.scalar.int")
	case 1:
		x := verifU8("x")
		v, rej, _ := vOne(x, vTypeOf(uint8(0)))
		verifAssert(!rej && v.Kind() == reflect.Uint8 && uint8(v.Uint()) == x, "C09.scalar.uint8")
	case 2:
		x := verifI32("x")
		v, rej, _ := vOne(x, vTypeOf(int32(0)))
		verifAssert(!rej && v.Kind() == reflect.Int32 && int32(v.Int()) == x, "C09.scalar.int32")
	case 3:
		x := verifBool("x")
		v, rej, _ := vOne(x, vTypeOf(false))
		verifAssert(!rej && v.Kind() == reflect.Bool && v.Bool() == x, "C09.scalar.bool")
	case 4:
		x := verifU64("x")
		v, rej, _ := vOne(x, vTypeOf(uint64(0)))
		verifAssert(!rej && v.Kind() == reflect.Uint64 && v.Uint() == x, "C09.scalar.uint64")
	case 5:
		v, rej, _ := vOne("hello", vTypeOf(""))
		verifAssert(!rej && v.Kind() == reflect.String && v.String() == "hello", "C09.scalar.string")
	}
	verifReached("C09.scalar")
}

// VC_C09_boxing: concrete values are boxed into interface results with their dynamic type
// intact.
func VC_C09_boxing() {
	x := verifInt("x")
	e := &vErr{code: x}
	switch verifChoice("case", 4) {
	case 0:
		v, rej, _ := vOne(e, vErrorT)
		verifAssert(!rej && v.Kind() == reflect.Interface && v.Type() == vErrorT, "C09.box.error-typed")
		verifAssert(!v.IsNil() && v.Elem().Type() == vTypeOf(e), "C09.box.dynamic-type-intact")
		got, ok := v.Interface().(*vErr)
		verifAssert(ok && got == e, "C09.box.same-pointer")
	case 1:
		v, rej, _ := vOne(x, vAnyT)
		verifAssert(!rej && v.Kind() == reflect.Interface, "C09.box.any-typed")
		got, ok := v.Interface().(int)
		verifAssert(ok && got == x, "C09.box.int-intact")
	case 2:
		s := vS1{A: x, B: 7}
		v, rej, _ := vOne(s, vAnyT)
		got, ok := v.Interface().(vS1)
		verifAssert(!rej && ok && got == s, "C09.box.struct-intact")
	case 3:
		var np *vErr
		v, rej, _ := vOne(np, vErrorT)
		// a typed nil pointer stays a non-nil interface holding a nil *vErr (Go semantics)
		verifAssert(!rej && v.Kind() == reflect.Interface && !v.IsNil(), "C09.box.typed-nil-stays-typed")
	}
	verifReached("C09.box")
}

// VC_C09_standin: a struct or struct pointer of identical layout may stand in; the data
// is delivered unaltered under the declared type.
func VC_C09_standin() {
	a, b := verifInt("a"), verifInt("b")
	switch verifChoice("case", 3) {
	case 2:
		// a typed nil stand-in pointer is a nil pointer of the declared type
		v, rej, _ := vOne((*vS2)(nil), vTypeOf((*vS1)(nil)))
		verifAssert(!rej, "C09.standin.nil-ptr-accepted")
		if !rej {
			verifAssert(v.Type() == vTypeOf((*vS1)(nil)), "C09.standin.nil-ptr-retyped")
			verifAssert(v.IsNil(), "C09.standin.nil-ptr-stays-nil")
		}
	case 0:
		v, rej, _ := vOne(vS2{X: a, Y: b}, vTypeOf(vS1{}))
		verifAssert(!rej, "C09.standin.struct-accepted")
		if !rej {
			verifAssert(v.Type() == vTypeOf(vS1{}), "C09.standin.struct-retyped")
			got := v.Interface().(vS1)
			verifAssert(got.A == a && got.B == b, "C09.standin.struct-data")
		}
	case 1:
		p := &vS2{X: a, Y: b}
		v, rej, _ := vOne(p, vTypeOf((*vS1)(nil)))
		verifAssert(!rej, "C09.standin.ptr-accepted")
		if !rej {
			verifAssert(v.Type() == vTypeOf((*vS1)(nil)), "C09.standin.ptr-retyped")
			got := v.Interface().(*vS1)
			verifAssert(unsafe.Pointer(got) == unsafe.Pointer(p), "C09.standin.ptr-same-data-word")
			verifAssert(got.A == a && got.B == b, "C09.standin.ptr-data")
		}
	}
	verifReached("C09.standin")
}

type vP1 struct{ p *vS1 }         // one pointer-shaped word: stored directly in interfaces
type vP2 struct{ q *vS1 }         // identical layout
type vP4 struct{ u uintptr }      // same size, not pointer-shaped: stored indirectly
type vP3 struct{ w [1]*vS1 }      // same again, through a one-element array

// VC_C09_standin_pointer_word: stand-in structs whose whole layout is one pointer word
// (reflect keeps those directly in the value's data word, not behind it).
func VC_C09_standin_pointer_word() {
	a, b := verifInt("a"), verifInt("b")
	tgt := &vS1{A: a, B: b}
	var v reflect.Value
	var rej bool
	switch verifChoice("case", 4) {
	case 3:
		// a same-size stand-in that reflect stores differently (a word that is not a
		// pointer type: kept behind the data word) for a pointer-shaped target
		v, rej, _ = vOne(vP4{u: uintptr(unsafe.Pointer(tgt))}, vTypeOf(vP1{}))
	case 0:
		v, rej, _ = vOne(vP2{q: tgt}, vTypeOf(vP1{}))
	case 1:
		v, rej, _ = vOne(vP3{w: [1]*vS1{tgt}}, vTypeOf(vP1{}))
	case 2:
		v, rej, _ = vOne(vP2{q: nil}, vTypeOf(vP1{}))
		tgt = nil
	}
	verifAssert(!rej, "C09.standin-word.accepted")
	if !rej {
		verifAssert(v.Type() == vTypeOf(vP1{}), "C09.standin-word.retyped")
		got := v.Interface().(vP1)
		verifAssert(got.p == tgt, "C09.standin-word.same-pointer")
		if tgt != nil && got.p != nil {
			verifAssert(got.p.A == a && got.p.B == b, "C09.standin-word.pointee-untouched")
		}
	}
	verifReached("C09.standin-word")
}

// VC_C09_size_mismatch: a value whose size differs from the declared type is rejected
// (error or configuration-time panic), never reinterpreted.
func VC_C09_size_mismatch() {
	type tc struct {
		val interface{}
		t   reflect.Type
	}
	x := verifInt("x")
	cases := []tc{
		{vS3{A: x}, vTypeOf(vS1{})},            // larger struct for struct
		{vS4{A: x}, vTypeOf(vS1{})},            // smaller struct for struct
		{int32(x), vTypeOf(int64(0))},          // narrower scalar
		{int64(x), vTypeOf(int32(0))},          // wider scalar
		{x, vTypeOf("")},                       // int for string
		{vS1{A: x}, vTypeOf((*vS1)(nil))},      // struct for pointer
		{int32(x), vTypeOf((*vS1)(nil))},       // small scalar for pointer
		{"s", vTypeOf(0)},                      // string for int
		{vS3{A: x}, vTypeOf(0)},                // struct for int
		{uint8(x), vTypeOf(vS1{})},             // scalar for struct
	}
	c := cases[verifChoice("case", len(cases))]
	_, rej, _ := vOne(c.val, c.t)
	verifAssert(rej, "C09.size.rejected")
	verifReached("C09.size")
}

// VC_C09_v2i: zero pointer / interface values are handed back as untyped nil, everything
// else unaltered.
func VC_C09_v2i() {
	x := verifInt("x")
	var np *int
	var ne error
	p := &x
	vals := []reflect.Value{reflect.ValueOf(np), reflect.Zero(vErrorT), reflect.ValueOf(p), reflect.ValueOf(x), reflect.ValueOf(errors.New("e"))}
	tys := []reflect.Type{vTypeOf(np), vErrorT, vTypeOf(p), vTypeOf(x), vErrorT}
	_ = ne
	out := V2I(vals, tys)
	verifAssert(out[0] == nil && out[1] == nil, "C09.v2i.zero-is-untyped-nil")
	verifAssert(out[2].(*int) == p, "C09.v2i.pointer-unaltered")
	verifAssert(out[3].(int) == x, "C09.v2i.int-unaltered")
	verifAssert(out[4] != nil, "C09.v2i.error-unaltered")
	// an interface-typed result that holds a zero value of its concrete type is not a nil
	// interface: it comes back boxed, dynamic type intact
	var te *vErr
	boxed := []interface{}{0, "", false, vS1{}, te}
	k := verifChoice("boxedZero", 5)
	bv, rej, _ := vOne(boxed[k], vAnyT)
	verifAssert(!rej, "C09.v2i.boxed-zero-accepted")
	if !rej {
		o := V2I([]reflect.Value{bv}, []reflect.Type{vAnyT})
		verifAssert(o[0] != nil, "C09.v2i.boxed-zero-value-is-not-nil")
		switch k {
		case 0:
			n, ok := o[0].(int)
			verifAssert(ok && n == 0, "C09.v2i.boxed-zero-keeps-dynamic-type")
		case 1:
			s, ok := o[0].(string)
			verifAssert(ok && s == "", "C09.v2i.boxed-zero-keeps-dynamic-type")
		case 2:
			bb, ok := o[0].(bool)
			verifAssert(ok && !bb, "C09.v2i.boxed-zero-keeps-dynamic-type")
		case 3:
			st, ok := o[0].(vS1)
			verifAssert(ok && st == vS1{}, "C09.v2i.boxed-zero-keeps-dynamic-type")
		case 4:
			pe, ok := o[0].(*vErr)
			verifAssert(ok && pe == nil, "C09.v2i.boxed-zero-keeps-dynamic-type")
		}
	}
	// the same for an error result holding a typed nil pointer
	ev, rej2, _ := vOne(te, vErrorT)
	verifAssert(!rej2, "C09.v2i.typed-nil-error-accepted")
	if !rej2 {
		o := V2I([]reflect.Value{ev}, []reflect.Type{vErrorT})
		verifAssert(o[0] != nil, "C09.v2i.typed-nil-error-is-not-nil")
	}
	// nil results of slice, map and func type keep the declared type (only interface and
	// pointer results become the untyped nil)
	var ns []int
	var nm map[string]int
	var nf func(int) int
	o3 := V2I([]reflect.Value{reflect.ValueOf(ns), reflect.ValueOf(nm), reflect.ValueOf(nf)},
		[]reflect.Type{vTypeOf(ns), vTypeOf(nm), vTypeOf(nf)})
	s3, okS := o3[0].([]int)
	m3, okM := o3[1].(map[string]int)
	f3, okF := o3[2].(func(int) int)
	verifAssert(okS && s3 == nil, "C09.v2i.nil-slice-keeps-declared-type")
	verifAssert(okM && m3 == nil, "C09.v2i.nil-map-keeps-declared-type")
	verifAssert(okF && f3 == nil, "C09.v2i.nil-func-keeps-declared-type")
	verifReached("C09.v2i")
}

// VC_C09_count: the number of supplied values must match the declared results.
func VC_C09_count() {
	ts := []reflect.Type{vTypeOf(0), vTypeOf("")}
	n := verifChoice("n", 4)
	objs := make([]interface{}, n)
	for i := 0; i < n; i++ {
		if i%2 == 0 {
			objs[i] = 1
		} else {
			objs[i] = "s"
		}
	}
	_, err := I2V(objs, ts, false)
	verifAssert((err == nil) == (n == 2), "C09.count.must-match")
	verifReached("C09.count")
}

// VC_C09_size_mismatch_position: in a row of three values a wrong-size value is rejected
// at whichever position it stands (also when the values after it convert cleanly); a
// well-formed row is accepted with every value in its place.
func VC_C09_size_mismatch_position() {
	x := verifInt("x")
	ts := []reflect.Type{vTypeOf((*vS1)(nil)), vTypeOf(0), vErrorT}
	good := []interface{}{&vS1{A: x}, x, nil}
	bad := []interface{}{"not a pointer", int8(1), vS3{A: x}}
	pos := verifChoice("badAt", 4) // 3: none
	row := make([]interface{}, 3)
	copy(row, good)
	if pos < 3 {
		row[pos] = bad[pos]
	}
	var vs []reflect.Value
	var err error
	panicked := false
	func() {
		defer func() {
			if r := recover(); r != nil {
				panicked = true
			}
		}()
		vs, err = I2V(row, ts, false)
	}()
	if pos < 3 {
		verifAssert(panicked || err != nil, "C09.size-position.rejected-at-any-position")
	} else {
		verifAssert(!panicked && err == nil && len(vs) == 3, "C09.size-position.well-formed-row-accepted")
		if !panicked && err == nil && len(vs) == 3 {
			verifAssert(vs[0].IsValid() && vs[1].IsValid() && vs[2].IsValid(), "C09.size-position.every-value-valid")
			verifAssert(vs[1].Int() == int64(x), "C09.size-position.value-in-its-place")
		}
	}
	verifReached("C09.size-position")
}

// VC_C09_condition_other_numeric_kind: a condition value of another numeric kind (same
// size, so it is accepted) is compared with the argument as the number it is - it is not
// converted (truncated, wrapped, rounded) to the parameter's type first: it matches only
// an argument that denotes the same number.
func VC_C09_condition_other_numeric_kind() {
	eval := func(pattern interface{}, a interface{}, t reflect.Type) (bool, bool) {
		e := Equals(pattern)
		if err := e.Resolve([]reflect.Type{t}, false); err != nil {
			return false, false
		}
		r, err := e.Eval([]reflect.Value{reflect.ValueOf(a)}, false)
		return r, err == nil
	}
	switch verifChoice("case", 4) {
	case 0: // a fraction for an int parameter: no int argument matches
		n := verifInt("n")
		r, ok := eval(1.5, n, vTypeOf(0))
		verifAssert(!ok || !r, "C09.other-kind.fraction-matches-no-int")
	case 1: // a negative int64 for a uint64 parameter: no argument matches
		u := verifU64("u")
		r, ok := eval(int64(-1), u, vTypeOf(uint64(0)))
		verifAssert(!ok || !r, "C09.other-kind.negative-matches-no-unsigned")
	case 2: // an unsigned value for an int64 parameter: matches exactly the same number
		p, a := verifU64("p"), verifInt("a")
		r, ok := eval(p, int64(a), vTypeOf(int64(0)))
		if ok {
			verifAssert(r == (a >= 0 && uint64(a) == p), "C09.other-kind.same-number-only")
		}
	default: // same kind: plain equality (control)
		p, a := verifInt("p"), verifInt("a")
		r, ok := eval(p, a, vTypeOf(0))
		verifAssert(ok && r == (p == a), "C09.other-kind.same-kind-is-equality")
	}
	verifReached("C09.other-kind")
}
