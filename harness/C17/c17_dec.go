package arm64asm

import refarm64 "github.com/tencent/goom/internal/zzverifref/refarm64"

// C17: the arm64 decoder is total on all 2^32 words (also when the instruction is
// printed) and agrees with the reference decoder (the Go toolchain's own copy) on
// decodability, opcode and PC-relative displacements, outside the DC/TLBI system
// encodings it leaves undecoded.

func vWord(group uint32, print bool) { vWordSub(group, -1, print) }

// vWordSub: words with bits 28:25 = group and, if sub >= 0, bits 24:21 = sub.
func vWordSub(group uint32, sub int, print bool) {
	w := verifU32("w")
	verifAssume((w>>25)&0xF == group)
	if sub >= 0 {
		verifAssume((w>>21)&0xF == uint32(sub))
	}
	src := []byte{byte(w), byte(w >> 8), byte(w >> 16), byte(w >> 24)}
	g, gerr := Decode(src)
	r, rerr := refarm64.Decode(src)
	sys := rerr == nil && (r.Op == refarm64.DC || r.Op == refarm64.TLBI)
	if !sys {
		verifAssert((gerr == nil) == (rerr == nil), "C17.same-decodability")
		if gerr == nil && rerr == nil {
			verifAssert(g.Op.String() == r.Op.String(), "C17.same-opcode")
			for i := 0; i < len(g.Args); i++ {
				gp, gok := g.Args[i].(PCRel)
				rp, rok := r.Args[i].(refarm64.PCRel)
				verifAssert(gok == rok, "C17.same-pcrel-operand-position")
				if gok && rok {
					verifAssert(int64(gp) == int64(rp), "C17.same-pcrel-displacement")
				}
			}
		}
	}
	if print && gerr == nil {
		// printing must not panic (its text is the formatter's business). Inst.String is
		// Op.String plus each argument's String joined; the parts are printed one per path
		// (a choice), so that their case splits add up instead of multiplying.
		k := verifChoice("print", 6)
		if k == 5 {
			_ = g.Op.String()
		} else if g.Args[k] != nil {
			if _, isFP := g.Args[k].(Imm_fp); !isFP { // floating-point immediates: outside (floats are not modelled)
				_ = g.Args[k].String()
			}
		}
	}
	verifReached("C17.word")
}

func VC_C17_g0() { vWord(0x0, false) }
func VC_C17_p0() { vWord(0x0, true) }
func VC_C17_g1() { vWord(0x1, false) }
func VC_C17_p1() { vWord(0x1, true) }
func VC_C17_g2() { vWord(0x2, false) }
func VC_C17_p2() { vWord(0x2, true) }
func VC_C17_g3() { vWord(0x3, false) }
func VC_C17_p3() { vWord(0x3, true) }
func VC_C17_g4() { vWord(0x4, false) }
func VC_C17_p4() { vWord(0x4, true) }
func VC_C17_g5() { vWord(0x5, false) }
func VC_C17_p5() { vWord(0x5, true) }
func VC_C17_g6() { vWord(0x6, false) }
func VC_C17_p6_0() { vWordSub(0x6, 0, true) }
func VC_C17_p6_1() { vWordSub(0x6, 1, true) }
func VC_C17_p6_2() { vWordSub(0x6, 2, true) }
func VC_C17_p6_3() { vWordSub(0x6, 3, true) }
func VC_C17_p6_4() { vWordSub(0x6, 4, true) }
func VC_C17_p6_5() { vWordSub(0x6, 5, true) }
func VC_C17_p6_6() { vWordSub(0x6, 6, true) }
func VC_C17_p6_7() { vWordSub(0x6, 7, true) }
func VC_C17_p6_8() { vWordSub(0x6, 8, true) }
func VC_C17_p6_9() { vWordSub(0x6, 9, true) }
func VC_C17_p6_a() { vWordSub(0x6, 10, true) }
func VC_C17_p6_b() { vWordSub(0x6, 11, true) }
func VC_C17_p6_c() { vWordSub(0x6, 12, true) }
func VC_C17_p6_d() { vWordSub(0x6, 13, true) }
func VC_C17_p6_e() { vWordSub(0x6, 14, true) }
func VC_C17_p6_f() { vWordSub(0x6, 15, true) }
func VC_C17_g7() { vWord(0x7, false) }
func VC_C17_p7_0() { vWordSub(0x7, 0, true) }
func VC_C17_p7_1() { vWordSub(0x7, 1, true) }
func VC_C17_p7_2() { vWordSub(0x7, 2, true) }
func VC_C17_p7_3() { vWordSub(0x7, 3, true) }
func VC_C17_p7_4() { vWordSub(0x7, 4, true) }
func VC_C17_p7_5() { vWordSub(0x7, 5, true) }
func VC_C17_p7_6() { vWordSub(0x7, 6, true) }
func VC_C17_p7_7() { vWordSub(0x7, 7, true) }
func VC_C17_p7_8() { vWordSub(0x7, 8, true) }
func VC_C17_p7_9() { vWordSub(0x7, 9, true) }
func VC_C17_p7_a() { vWordSub(0x7, 10, true) }
func VC_C17_p7_b() { vWordSub(0x7, 11, true) }
func VC_C17_p7_c() { vWordSub(0x7, 12, true) }
func VC_C17_p7_d() { vWordSub(0x7, 13, true) }
func VC_C17_p7_e() { vWordSub(0x7, 14, true) }
func VC_C17_p7_f() { vWordSub(0x7, 15, true) }
func VC_C17_g8() { vWord(0x8, false) }
func VC_C17_p8() { vWord(0x8, true) }
func VC_C17_g9() { vWord(0x9, false) }
func VC_C17_p9() { vWord(0x9, true) }
func VC_C17_ga() { vWord(0xA, false) }
func VC_C17_pa() { vWord(0xA, true) }
func VC_C17_gb() { vWord(0xB, false) }
func VC_C17_pb() { vWord(0xB, true) }
func VC_C17_gc() { vWord(0xC, false) }
func VC_C17_pc() { vWord(0xC, true) }
func VC_C17_gd() { vWord(0xD, false) }
func VC_C17_pd() { vWord(0xD, true) }
func VC_C17_ge() { vWord(0xE, false) }
func VC_C17_pe() { vWord(0xE, true) }
func VC_C17_gf() { vWord(0xF, false) }
func VC_C17_pf() { vWord(0xF, true) }

// VC_C17_short: fewer than 4 bytes are refused.
func VC_C17_short() {
	n := verifChoice("n", 4)
	src := verifBytes("src", n)
	_, err := Decode(src)
	verifAssert(err != nil, "C17.short-input-refused")
	verifReached("C17.short")
}
