package mocker

// C12 for the other kinds of handle the property names: struct methods, interface
// variables and variables. The same last-writer-wins reference model as c12_root.go,
// driven through an adapter per kind of target.

type vT12 struct{ n int }

func (t *vT12) M(i int) int { return i + 1 }

func vMCb0(t *vT12, i int) int { return i + 1000 }
func vMCb1(t *vT12, i int) int { return i + 2000 }

var vMCbs = [2]interface{}{vMCb0, vMCb1}

// vTgt12: what the history driver needs from a kind of target.
type vTgt12 struct {
	apply    func(b *Builder, k int)
	ret      func(b *Builder, v int)
	when     func(b *Builder, a, v int)
	cancel   func(b *Builder)
	call     func(id string, x int) (int, bool)
	pristine func() bool
}

type vModel12 struct {
	mode    int
	cb      int
	pairArg [6]int
	pairVal [6]int
	nPairs  int
	hasDef  bool
	defVal  int
	defN    int
}

func vHandleHistory(K int, t *vTgt12, id string) {
	b := Create()
	var md vModel12
	for step := 0; step < K; step++ {
		op := verifChoice(vOpN[step], 5)
		switch op {
		case 0:
			k := verifChoice(vArgN[step], 2)
			t.apply(b, k)
			md = vModel12{mode: vCallback, cb: k}
		case 1:
			v := verifInt(vValN[step])
			t.ret(b, v)
			if md.mode != vStub {
				md = vModel12{mode: vStub, hasDef: true, defVal: v, defN: 1}
			} else {
				// what a second plain Return does to an existing stub is not specified
				md.nPairs, md.hasDef, md.defN = 0, false, 2
			}
		case 2:
			a := 10 + step
			v := verifInt(vValN[step])
			t.when(b, a, v)
			if md.mode != vStub {
				md = vModel12{mode: vStub}
			}
			md.pairArg[md.nPairs], md.pairVal[md.nPairs] = a, v
			md.nPairs++
		case 3:
			b.Reset()
			md = vModel12{}
		case 4:
			t.cancel(b)
			md = vModel12{}
		}
		switch md.mode {
		case vNone:
			verifAssert(t.pristine(), id+".reset-leaves-nothing-installed")
		case vCallback:
			x := verifInt("x")
			r, p := t.call(id, x)
			verifAssert(!p, id+".callback-no-panic")
			verifAssert(r == x+1000*(md.cb+1), id+".later-apply-supersedes")
		case vStub:
			for i := 0; i < md.nPairs; i++ {
				r, p := t.call(id, md.pairArg[i])
				verifAssert(!p && r == md.pairVal[i], id+".later-stub-supersedes.condition")
			}
			if md.hasDef && md.defN == 1 {
				r, p := t.call(id, 7)
				verifAssert(!p && r == md.defVal, id+".later-stub-supersedes.default")
			}
		}
	}
	b.Reset()
	verifAssert(t.pristine(), id+".final-reset-restores")
	verifReached(id)
}

func vMethodTarget() *vTgt12 {
	return &vTgt12{
		apply:  func(b *Builder, k int) { b.Struct(&vT12{}).Method("M").Apply(vMCbs[k]) },
		ret:    func(b *Builder, v int) { b.Struct(&vT12{}).Method("M").Return(v) },
		when:   func(b *Builder, a, v int) { b.Struct(&vT12{}).Method("M").When(a).Return(v) },
		cancel: func(b *Builder) { b.Struct(&vT12{}).Method("M").Cancel() },
		call: func(id string, x int) (res int, panicked bool) {
			f := vInvoke((*vT12).M, id)
			fn, ok := f.(func(*vT12, int) int)
			verifAssert(ok, id+".installed-has-target-signature")
			if !ok {
				return 0, true
			}
			defer func() {
				if r := recover(); r != nil {
					panicked = true
				}
			}()
			return fn(&vT12{n: 3}, x), false
		},
		pristine: func() bool { return !vDiverted((*vT12).M) },
	}
}

// VC_C12_method_h3 / h4: histories on a struct method addressed by name through repeated
// Struct(...).Method(...) lookups.
func VC_C12_method_h3() {
	vEnv()
	vPristine((*vT12).M)
	vHandleHistory(3, vMethodTarget(), "C12.method")
}
func VC_C12_method_h4() {
	vEnv()
	vPristine((*vT12).M)
	vHandleHistory(4, vMethodTarget(), "C12.method")
}

var vVar12 int

// VC_C12_var: variable handles continue too: the latest Set wins, a repeated lookup is
// the same mocker, after Reset a fresh one.
func VC_C12_var() {
	vEnv()
	v0, v1, v2 := verifInt("v0"), verifInt("v1"), verifInt("v2")
	vVar12 = v0
	b := Create()
	m1 := b.Var(&vVar12)
	m1.Set(v1)
	verifAssert(vVar12 == v1, "C12.var.set-takes-effect")
	m2 := b.Var(&vVar12)
	verifAssert(m1 == m2, "C12.var.same-live-mocker")
	m2.Set(v2)
	verifAssert(vVar12 == v2, "C12.var.latest-set-wins")
	b.Reset()
	verifAssert(vVar12 == v0, "C12.var.reset-restores-pre-mock-value")
	m3 := b.Var(&vVar12)
	verifAssert(m3 != m1, "C12.var.fresh-after-reset")
	m3.Set(v1)
	verifAssert(vVar12 == v1, "C12.var.fresh-set-takes-effect")
	b.Reset()
	verifAssert(vVar12 == v0, "C12.var.reset-restores-pre-mock-value")
	verifReached("C12.var")
}

type vT12v struct{ n int }

func (t vT12v) V(i int) int  { return i + 1 }
func (t *vT12v) P(i int) int { return i + 2 }

// VC_C12_struct_forms: the pointer form and the value form of one struct type are looked
// up in the same builder in either order: the most recent instruction for the
// value-receiver method V and for the pointer-receiver method P both take effect.
func VC_C12_struct_forms() {
	vEnv()
	vPristine(vT12v.V)
	vPristine((*vT12v).P)
	// the compiler-generated pointer-receiver wrapper of V is a function of its own
	vPristine((*vT12v).V)
	verifApart(verifFuncCode(vT12v.V), verifFuncCode((*vT12v).P), 32)
	verifApart(verifFuncCode(vT12v.V), verifFuncCode((*vT12v).V), 32)
	verifApart(verifFuncCode((*vT12v).P), verifFuncCode((*vT12v).V), 32)
	b := Create()
	v1, v2 := verifInt("v1"), verifInt("v2")
	panicked := false
	func() {
		defer func() {
			if r := recover(); r != nil {
				panicked = true
			}
		}()
		if verifBool("pointerFirst") {
			b.Struct(&vT12v{}).Method("P").Return(v1)
			b.Struct(vT12v{}).Method("V").Return(v2)
		} else {
			b.Struct(vT12v{}).Method("V").Return(v2)
			b.Struct(&vT12v{}).Method("P").Return(v1)
		}
	}()
	verifAssert(!panicked, "C12.forms.accepted")
	if panicked {
		return
	}
	fp, ok1 := vInvoke((*vT12v).P, "C12.forms").(func(*vT12v, int) int)
	fv, ok2 := vInvoke(vT12v.V, "C12.forms").(func(vT12v, int) int)
	verifAssert(ok1 && ok2, "C12.forms.installed-have-method-signatures")
	if ok1 && ok2 {
		verifAssert(vDiverted((*vT12v).P) && fp(&vT12v{}, 1) == v1, "C12.forms.pointer-method-follows-latest-instruction")
		verifAssert(vDiverted(vT12v.V) && fv(vT12v{}, 1) == v2, "C12.forms.value-method-follows-latest-instruction")
	}
	verifAssert(!vDiverted((*vT12v).V), "C12.forms.wrapper-untouched")
	b.Reset()
	verifAssert(!vDiverted((*vT12v).P) && !vDiverted(vT12v.V), "C12.forms.reset-restores")
	verifReached("C12.forms")
}

type vCfg12 struct {
	Name  string
	Limit [2]int
}

var vCfgA12, vCfgB12 vCfg12
var vSliceA12, vSliceB12 []int

// VC_C12_var_composite: the variable handle for variables of struct and slice type: a
// repeated lookup continues the live mocker whatever the variable currently holds, two
// variables with equal contents have separate mockers, Cancel through a second lookup
// restores, Reset restores both to their pre-mock values.
func VC_C12_var_composite() {
	vEnv()
	x, y := verifInt("x"), verifInt("y")
	orig := vCfg12{Name: "orig", Limit: [2]int{x, x}}
	vCfgA12, vCfgB12 = orig, orig // equal contents, two variables
	vSliceA12, vSliceB12 = []int{x}, []int{x}
	b := Create()
	if verifBool("slices") {
		m1 := b.Var(&vSliceA12)
		m1.Set([]int{y, y})
		verifAssert(len(vSliceA12) == 2 && len(vSliceB12) == 1, "C12.var-composite.set-writes-the-named-variable-only")
		m2 := b.Var(&vSliceA12)
		verifAssert(m1 == m2, "C12.var-composite.same-live-mocker")
		mb := b.Var(&vSliceB12)
		verifAssert(mb != m1, "C12.var-composite.other-variable-has-its-own-mocker")
		mb.Set([]int{y, y, y})
		verifAssert(len(vSliceA12) == 2 && len(vSliceB12) == 3, "C12.var-composite.set-writes-the-named-variable-only")
		if verifBool("cancelSecondLookup") {
			b.Var(&vSliceA12).Cancel()
			verifAssert(len(vSliceA12) == 1 && vSliceA12[0] == x, "C12.var-composite.cancel-through-second-lookup-restores")
		}
		b.Reset()
		verifAssert(len(vSliceA12) == 1 && vSliceA12[0] == x && len(vSliceB12) == 1 && vSliceB12[0] == x, "C12.var-composite.reset-restores-pre-mock-values")
		verifReached("C12.var-composite.slices")
		return
	}
	m1 := b.Var(&vCfgA12)
	m1.Set(vCfg12{Name: "m1", Limit: [2]int{y, y}})
	verifAssert(vCfgA12.Name == "m1" && vCfgB12 == orig, "C12.var-composite.set-writes-the-named-variable-only")
	m2 := b.Var(&vCfgA12)
	verifAssert(m1 == m2, "C12.var-composite.same-live-mocker")
	m2.Set(vCfg12{Name: "m2", Limit: [2]int{y, x}})
	verifAssert(vCfgA12.Name == "m2", "C12.var-composite.latest-set-wins")
	mb := b.Var(&vCfgB12)
	verifAssert(mb != m1, "C12.var-composite.other-variable-has-its-own-mocker")
	mb.Set(vCfg12{Name: "b"})
	verifAssert(vCfgA12.Name == "m2" && vCfgB12.Name == "b", "C12.var-composite.set-writes-the-named-variable-only")
	if verifBool("cancelSecondLookup") {
		b.Var(&vCfgA12).Cancel()
		verifAssert(vCfgA12 == orig, "C12.var-composite.cancel-through-second-lookup-restores")
	}
	b.Reset()
	verifAssert(vCfgA12 == orig && vCfgB12 == orig, "C12.var-composite.reset-restores-pre-mock-values")
	verifReached("C12.var-composite.structs")
}
