package mocker

// C12 for a target without results: the same last-instruction-wins histories (a stub of
// such a function is Return() / When(a).Return() with no values).

var vVoidRan, vVoidCb int

func vVoidTarget(i int) { vVoidRan++ }
func vVoidCb0(i int)    { vVoidCb = 1 }
func vVoidCb1(i int)    { vVoidCb = 2 }

func vVoidHistory(K int) {
	vEnv()
	vPristine(vVoidTarget)
	b := Create()
	mode, cb := vNone, 0
	for step := 0; step < K; step++ {
		panicked := false
		func() {
			defer func() {
				if r := recover(); r != nil {
					panicked = true
				}
			}()
			switch verifChoice(vOpN[step], 5) {
			case 0:
				k := verifChoice(vArgN[step], 2)
				if k == 0 {
					b.Func(vVoidTarget).Apply(vVoidCb0)
				} else {
					b.Func(vVoidTarget).Apply(vVoidCb1)
				}
				mode, cb = vCallback, k+1
			case 1:
				b.Func(vVoidTarget).Return()
				mode = vStub
			case 2:
				b.Func(vVoidTarget).When(7).Return()
				mode = vStub
			case 3:
				b.Reset()
				mode = vNone
			case 4:
				b.Func(vVoidTarget).Cancel()
				mode = vNone
			}
		}()
		verifAssert(!panicked, "C12.void.instruction-accepted")
		if panicked {
			return
		}
		if mode == vNone {
			verifAssert(!vDiverted(vVoidTarget), "C12.void.reset-leaves-nothing-installed")
			continue
		}
		f, ok := vInvoke(vVoidTarget, "C12.void").(func(int))
		verifAssert(ok && vDiverted(vVoidTarget), "C12.void.installed-has-target-signature")
		if !ok {
			return
		}
		vVoidRan, vVoidCb = 0, 0
		callPanicked := false
		func() {
			defer func() {
				if r := recover(); r != nil {
					callPanicked = true
				}
			}()
			f(7)
		}()
		verifAssert(!callPanicked, "C12.void.call-returns-normally")
		verifAssert(vVoidRan == 0, "C12.void.original-not-run")
		if mode == vCallback {
			verifAssert(vVoidCb == cb, "C12.void.later-apply-supersedes")
		} else {
			verifAssert(vVoidCb == 0, "C12.void.later-stub-supersedes")
		}
	}
	b.Reset()
	verifAssert(!vDiverted(vVoidTarget), "C12.void.final-reset-restores")
	verifReached("C12.void")
}

// VC_C12_void_h3: histories of 3 instructions on a function without results.
func VC_C12_void_h3() { vVoidHistory(3) }

// VC_C12_void_h4: the same with 4 instructions (thorough).
func VC_C12_void_h4() { vVoidHistory(4) }
