package mocker

import "errors"

// C12 through the by-name handles (ExportFunc(name), and its exported view As(sig)): the
// same last-instruction-wins model as for Func(f).

// the symbol lookup itself is the subject of C10
//
//verif:stub github.com/tencent/goom/internal/unexports2.FindFuncByName
func vC12FindFuncByName(name string) (uintptr, error) {
	if name == "github.com/tencent/goom.vTargetFn" {
		return verifFuncCode(vTargetFn), nil
	}
	return 0, errors.New("function symbol not found: " + name)
}

// VC_C12_byname_h3 / h4: histories of 3 / 4 instructions on one function addressed by name.
func VC_C12_byname_h3() { vFuncHistoryForm(3, 1) }
func VC_C12_byname_h4() { vFuncHistoryForm(4, 1) }
