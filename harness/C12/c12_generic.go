//go:build go1.18
// +build go1.18

package mocker

import "github.com/tencent/goom/internal/patch"

// C12 for instantiations of a generic function: the runtime gives every instantiation the
// same name (pkg.F[...]); two instantiations whose func types are identical (the type
// parameter appears in neither parameters nor results) are still two targets, each with
// its own configuration in the builder.

func vC12Size[T any]() int {
	var t [4]T
	return len(t)
}

type vC12Box[T any] struct{ v T }

func (b *vC12Box[T]) Len() int { return 3 }

// VC_C12_generic_instances: Func lookups of two instantiations configure two mockers; a
// repeated lookup of one of them continues that one; each target behaves according to the
// most recent instruction given for it.
func VC_C12_generic_instances() {
	vEnv()
	fa, fb := interface{}(vC12Size[int]), interface{}(vC12Size[string])
	vPristine(fa)
	vPristine(fb)
	verifApart(verifFuncCode(fa), verifFuncCode(fb), 32)
	verifAssert(patch.IsGenericsFunc(functionName(fa)) && functionName(fa) == functionName(fb), "C12.generic.instantiations-share-the-runtime-name")
	b := Create()
	ra, rb, rc := verifInt("ra"), verifInt("rb"), verifInt("rc")
	ma := b.Func(fa)
	ma.Return(ra)
	mb := b.Func(fb)
	verifAssert(ma != mb, "C12.generic.instantiations-are-separate-targets")
	mb.Return(rb)
	verifAssert(vDiverted(fa) && vDiverted(fb), "C12.generic.both-mocked")
	ca := vInvoke(fa, "C12.generic.a").(func() int)
	cb := vInvoke(fb, "C12.generic.b").(func() int)
	verifAssert(ca() == ra && ca() == ra, "C12.generic.first-keeps-its-own-stub")
	verifAssert(cb() == rb, "C12.generic.second-gets-its-own-stub")
	verifAssert(b.Func(fa) == ma && b.Func(fb) == mb, "C12.generic.repeated-lookup-continues")
	if verifBool("applyLater") {
		b.Func(fb).Apply(func() int { return rc })
		cb = vInvoke(fb, "C12.generic.b2").(func() int)
		verifAssert(cb() == rc, "C12.generic.later-apply-wins-on-its-own-target")
		verifAssert(ca() == ra, "C12.generic.other-instantiation-unaffected-by-later-apply")
	}
	b.Reset()
	verifAssert(!vDiverted(fa) && !vDiverted(fb), "C12.generic.reset-restores")
	verifReached("C12.generic")
}

// the function value of an instantiation is taken as the patch target itself (locating
// the shared body behind the compiler's per-instantiation wrapper is disassembly: C14/C16)
//
//verif:stub github.com/tencent/goom/internal/bytecode.GetInnerFunc
func vC12StubGetInnerFunc(mode int, start uintptr) (uintptr, error) { return 0, nil }
