package mocker

// C12: within a builder the most recent instruction for a target wins (reference model
// of DESIGN App. D.4), checked by calling whatever the target's entry currently reaches.

func vTargetFn(i int) int { return i + 1 }

func vCb0(i int) int { return i + 1000 }
func vCb1(i int) int { return i + 2000 }

var vCbs = [2]interface{}{vCb0, vCb1}

const (
	vNone = iota
	vCallback
	vStub
)

type vModel struct {
	mode    int
	cb      int
	pairArg [6]int
	pairVal [6]int
	nPairs  int
	hasDef  bool
	defVal  int
	defN    int // number of plain Returns since the stub was created
}

var vOpN = [6]string{"op0", "op1", "op2", "op3", "op4", "op5"}
var vArgN = [6]string{"k0", "k1", "k2", "k3", "k4", "k5"}
var vValN = [6]string{"v0", "v1", "v2", "v3", "v4", "v5"}

func vCallInstalled(id string, x int) (res int, panicked bool) {
	f := vInvoke(vTargetFn, id)
	fn, ok := f.(func(int) int)
	verifAssert(ok, id+".installed-has-target-signature")
	if !ok {
		return 0, true
	}
	defer func() {
		if r := recover(); r != nil {
			panicked = true
		}
	}()
	return fn(x), false
}

func vFuncHistory(K int) { vFuncHistoryForm(K, 0) }

// vFuncHistoryForm: form 0 addresses the target by its function value, form 1 by name
// (ExportFunc(name) for Apply/Cancel, ExportFunc(name).As(sig) for Return/When).
func vFuncHistoryForm(K, form int) {
	vEnv()
	vPristine(vTargetFn)
	b := Create()
	var md vModel
	for step := 0; step < K; step++ {
		op := verifChoice(vOpN[step], 5)
		id := "C12.func"
		if form == 1 {
			id = "C12.byname"
		}
		switch op {
		case 0: // lookup + Apply(cb_k)
			k := verifChoice(vArgN[step], 2)
			if form == 0 {
				b.Func(vTargetFn).Apply(vCbs[k])
			} else {
				b.ExportFunc("vTargetFn").Apply(vCbs[k])
			}
			md = vModel{mode: vCallback, cb: k}
		case 1: // lookup + Return(v)
			v := verifInt(vValN[step])
			if form == 0 {
				b.Func(vTargetFn).Return(v)
			} else {
				b.ExportFunc("vTargetFn").As(vTargetFn).Return(v)
			}
			if md.mode != vStub {
				md = vModel{mode: vStub, hasDef: true, defVal: v, defN: 1}
			} else {
				// a plain Return on an existing stub continues whatever was configured last
				// (default sequence or the last condition's sequence); the property is silent
				// on that, so nothing configured so far is asserted any more. Conditions
				// registered afterwards are.
				md.nPairs, md.hasDef, md.defN = 0, false, 2
			}
		case 2: // lookup + When(a).Return(v), a distinct per step
			a := 10 + step
			v := verifInt(vValN[step])
			if form == 0 {
				b.Func(vTargetFn).When(a).Return(v)
			} else {
				b.ExportFunc("vTargetFn").As(vTargetFn).When(a).Return(v)
			}
			if md.mode != vStub {
				md = vModel{mode: vStub}
			}
			md.pairArg[md.nPairs], md.pairVal[md.nPairs] = a, v
			md.nPairs++
		case 3:
			b.Reset()
			md = vModel{}
		case 4:
			if form == 0 {
				b.Func(vTargetFn).Cancel()
			} else {
				b.ExportFunc("vTargetFn").Cancel()
			}
			md = vModel{}
		}
		// the target behaves according to the most recent instruction
		switch md.mode {
		case vNone:
			verifAssert(!vDiverted(vTargetFn), id+".reset-leaves-nothing-installed")
		case vCallback:
			x := verifInt("x")
			r, p := vCallInstalled(id, x)
			verifAssert(!p, id+".callback-no-panic")
			if md.cb == 0 {
				verifAssert(r == vCb0(x), id+".later-apply-supersedes")
			} else {
				verifAssert(r == vCb1(x), id+".later-apply-supersedes")
			}
		case vStub:
			for i := 0; i < md.nPairs; i++ {
				r, p := vCallInstalled(id, md.pairArg[i])
				verifAssert(!p && r == md.pairVal[i], id+".later-stub-supersedes.condition")
			}
			if md.hasDef && md.defN == 1 {
				// an argument matching no condition gets the default
				r, p := vCallInstalled(id, 7)
				verifAssert(!p && r == md.defVal, id+".later-stub-supersedes.default")
			}
		}
	}
	b.Reset()
	if form == 1 {
		verifAssert(!vDiverted(vTargetFn), "C12.byname.final-reset-restores")
		verifReached("C12.byname")
		return
	}
	verifAssert(!vDiverted(vTargetFn), "C12.func.final-reset-restores")
	verifReached("C12.func")
}

// VC_C12_func_h3 / h4: histories of 3 / 4 instructions on one function target.
func VC_C12_func_h3() { vFuncHistory(3) }
func VC_C12_func_h4() { vFuncHistory(4) }

// VC_C12_lookup_continues: a repeated lookup returns the live mocker; after Reset a fresh
// one; Pkg applies to the next lookup only.
func VC_C12_lookup_continues() {
	vEnv()
	vPristine(vTargetFn)
	b := Create()
	m1 := b.Func(vTargetFn)
	m1.Return(1)
	m2 := b.Func(vTargetFn)
	verifAssert(m1 == m2, "C12.lookup.same-live-mocker")
	b.Reset()
	m3 := b.Func(vTargetFn)
	verifAssert(m3 != m1, "C12.lookup.fresh-after-reset")
	verifAssert(m3.when == nil, "C12.lookup.fresh-has-no-when")
	cur := b.PkgName()
	b.Pkg("some/other/pkg")
	u := b.ExportFunc("f1")
	verifAssert(u.pkgName == "some/other/pkg", "C12.pkg.applies-to-next-lookup")
	verifAssert(b.PkgName() == cur, "C12.pkg.only-next-lookup")
	u2 := b.ExportFunc("f2")
	verifAssert(u2.pkgName == cur, "C12.pkg.second-lookup-uses-current")
	// lookups made under a Pkg override are continued too, and stay apart from a
	// same-named function of the current package
	u3 := b.Pkg("some/other/pkg").ExportFunc("f1")
	verifAssert(u3 == u, "C12.pkg.override-lookup-continued")
	verifAssert(b.PkgName() == cur, "C12.pkg.only-next-lookup")
	u4 := b.ExportFunc("f1")
	verifAssert(u4 != u, "C12.pkg.same-name-in-current-package-is-another-mocker")
	verifAssert(u4.pkgName == cur, "C12.pkg.second-lookup-uses-current")
	u5 := b.ExportFunc("f1")
	verifAssert(u5 == u4, "C12.lookup.same-live-mocker")
	s1 := b.Pkg("some/other/pkg").ExportStruct("conn")
	s2 := b.Pkg("some/other/pkg").ExportStruct("conn")
	verifAssert(s1 == s2, "C12.pkg.override-lookup-continued")
	s3 := b.ExportStruct("conn")
	verifAssert(s3 != s1, "C12.pkg.same-name-in-current-package-is-another-mocker")
	verifAssert(b.PkgName() == cur, "C12.pkg.only-next-lookup")
	verifReached("C12.lookup")
}

type vC12LI interface{ Get() int }

var vC12LIv vC12LI
var vC12LVar int

type vC12LT struct{ n int }

func (t *vC12LT) M() int { return t.n }

// VC_C12_pkg_consumed: a Pkg override is consumed by the next lookup of any kind - the
// first lookup of a target as well as a repeated one that finds the live mocker - so a
// later by-name lookup without Pkg resolves in the current package again.
func VC_C12_pkg_consumed() {
	vEnv()
	vPristine(vTargetFn)
	b := Create()
	cur := b.PkgName()
	kind := verifChoice("kind", 6)
	repeated := verifBool("repeated")
	look := func() {
		switch kind {
		case 0:
			b.Func(vTargetFn)
		case 1:
			b.Struct(&vC12LT{})
		case 2:
			b.Interface(&vC12LIv)
		case 3:
			b.ExportFunc("someFunc")
		case 4:
			b.ExportStruct("*someStruct")
		case 5:
			b.Var(&vC12LVar)
		}
	}
	if repeated {
		look() // the target already has a live mocker in this builder
		verifAssert(b.PkgName() == cur, "C12.pkg-consumed.no-override-no-change")
	}
	b.Pkg("some/other/pkg")
	look()
	verifAssert(b.PkgName() == cur, "C12.pkg-consumed.only-next-lookup")
	u := b.ExportFunc("laterFunc")
	verifAssert(u.pkgName == cur, "C12.pkg-consumed.later-lookup-uses-current-package")
	verifReached("C12.pkg-consumed")
}
