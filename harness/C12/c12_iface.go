package mocker

import (
	"reflect"
	"unsafe"

	"github.com/tencent/goom/internal/bytecode/stub"
)

// C12 on an interface variable (no native replay: the call goes through the stub bytes in
// the symbolic image, see harness/shared/ifacecall.go).

type vI12 interface {
	Get(i int) int
	Put(i int) int
}

var vIVar12 vI12

func vICb0(ctx *IContext, i int) int { return i + 1000 }
func vICb1(ctx *IContext, i int) int { return i + 2000 }

var vICbs = [2]interface{}{vICb0, vICb1}

func vIfaceTarget() *vTgt12 {
	t := reflect.TypeOf(&vIVar12).Elem()
	slot := vSlotOf(t, "Get")
	return &vTgt12{
		apply:  func(b *Builder, k int) { b.Interface(&vIVar12).Method("Get").Apply(vICbs[k]) },
		ret:    func(b *Builder, v int) { b.Interface(&vIVar12).Method("Get").As(vICb0).Return(v) },
		when:   func(b *Builder, a, v int) { b.Interface(&vIVar12).Method("Get").As(vICb0).When(a).Return(v) },
		cancel: func(b *Builder) { b.Interface(&vIVar12).Method("Get").Cancel() },
		call: func(id string, x int) (res int, panicked bool) {
			verifAssert(vIVar12 != nil, id+".variable-non-nil")
			if vIVar12 == nil {
				return 0, true
			}
			f, recv, notImpl := vDispatch(unsafe.Pointer(&vIVar12), slot, id)
			verifAssert(!notImpl && f != nil, id+".mocked-slot-has-stub")
			if notImpl || f == nil {
				return 0, true
			}
			return vCall07(f, recv, x)
		},
		pristine: func() bool { return vIVar12 == nil },
	}
}

// VC_C12_iface_h3: histories on one method of an interface variable through repeated
// Interface(&v).Method(...) lookups (Apply, As+Return, As+When+Return, Cancel, Reset).
func VC_C12_iface_h3() {
	vEnv()
	stub.VerifResetMmap()
	vIVar12 = nil
	vHandleHistory(3, vIfaceTarget(), "C12.iface")
}

func VC_C12_iface_h4() {
	vEnv()
	stub.VerifResetMmap()
	vIVar12 = nil
	vHandleHistory(4, vIfaceTarget(), "C12.iface")
}

// VC_C12_iface_siblings: two methods of one interface variable stubbed through one
// builder, one of them cancelled through its own lookup, then the other instructed again
// (Return / When / Apply) through a fresh lookup: the sibling behaves according to that
// most recent instruction.
func VC_C12_iface_siblings() {
	vEnv()
	stub.VerifResetMmap()
	vIVar12 = nil
	t := reflect.TypeOf(&vIVar12).Elem()
	b := Create()
	ra, rb, x, c := verifInt("ra"), verifInt("rb"), verifInt("x"), verifInt("c")
	b.Interface(&vIVar12).Method("Get").As(vICb0).Return(ra)
	b.Interface(&vIVar12).Method("Put").As(vICb0).Return(rb)
	b.Interface(&vIVar12).Method("Get").Cancel()
	want := x
	switch verifChoice("then", 3) {
	case 0:
		b.Interface(&vIVar12).Method("Put").As(vICb0).Return(x)
	case 1:
		b.Interface(&vIVar12).Method("Put").As(vICb0).When(c).Return(x)
	default:
		b.Interface(&vIVar12).Method("Put").Apply(vICb1)
		want = c + 2000
	}
	verifAssert(vIVar12 != nil, "C12.iface-siblings.variable-holds-the-mock")
	if vIVar12 != nil {
		f, recv, notImpl := vDispatch(unsafe.Pointer(&vIVar12), vSlotOf(t, "Put"), "C12.iface-siblings")
		verifAssert(!notImpl && f != nil, "C12.iface-siblings.sibling-mocked")
		if !notImpl && f != nil {
			got, p := vCall07(f, recv, c)
			verifAssert(!p && got == want, "C12.iface-siblings.most-recent-instruction-obeyed")
		}
	}
	b.Reset()
	verifAssert(vIVar12 == nil, "C12.iface-siblings.reset-restores")
	verifReached("C12.iface-siblings")
}
