package patch

// C01 (patch layer): after a mock is applied, executing from the target's entry reaches
// the replacement's code with RDX = its func value and every other register, hence every
// argument, unchanged; the patch table keeps the replacement reachable.

// VC_C01_transfer: arbitrary machine state at the call.
func VC_C01_transfer() {
	vReset()
	t := vNewTarget()
	verifAssume(t.size >= 14)
	verifAssume(verifImgLoad(t.addr) != 0x90)
	which := verifChoice("repl", 2)
	var repl interface{} = vReplA
	if which == 1 {
		repl = vReplB
	}
	g, err := PtrTrampoline(t.addr, repl, nil)
	verifAssert(err == nil, "C01.transfer.mock-accepted")
	if err != nil {
		return
	}
	g.Apply()
	var m vx86
	m.havoc()
	before := m
	jumped := m.runFrom(uint64(t.addr))
	verifAssert(m.ok && jumped, "C01.transfer.entry-decodes")
	verifAssert(m.rip == uint64(verifFuncCode(repl)), "C01.transfer.reaches-replacement-code")
	verifAssert(m.regs[2] == uint64(verifFuncAddr(repl)), "C01.transfer.rdx-is-func-value")
	verifAssert(m.sameExcept(&before, 2), "C01.transfer.argument-registers-and-rsp-unchanged")
	// only the entry window was written: stack and heap memory are untouched
	vWrittenInside(0, t.addr, 13, "C01.transfer.no-other-memory-written")
	verifReached("C01.transfer")
}

// VC_C01_keepalive: the patch table references the patch of the replacement that is
// installed now, also after re-mocking an already mocked (or previously reset) target.
func VC_C01_keepalive() {
	vReset()
	t := vNewTarget()
	verifAssume(t.size >= 14)
	verifAssume(verifImgLoad(t.addr) != 0x90)
	g1, err := PtrTrampoline(t.addr, vReplA, nil)
	verifAssert(err == nil, "C01.keepalive.first-accepted")
	if err != nil {
		return
	}
	g1.Apply()
	p, ok := patches[t.addr]
	verifAssert(ok && p != nil, "C01.keepalive.registered")
	verifAssert(verifFuncAddr(p.replacement) == verifFuncAddr(vReplA), "C01.keepalive.holds-replacement")
	if verifBool("resetBetween") {
		g1.UnpatchWithLock()
	}
	g2, err := PtrTrampoline(t.addr, vReplB, nil)
	verifAssert(err == nil, "C01.keepalive.second-accepted")
	if err != nil {
		return
	}
	g2.Apply()
	p2, ok2 := patches[t.addr]
	verifAssert(ok2 && p2 != nil, "C01.keepalive.still-registered")
	verifAssert(verifFuncAddr(p2.replacement) == verifFuncAddr(vReplB), "C01.keepalive.holds-current-replacement")
	verifAssert(p2.guard == g2, "C01.keepalive.guard-of-current-patch")
	// and the entry now reaches the second replacement
	var m vx86
	m.havoc()
	m.runFrom(uint64(t.addr))
	verifAssert(m.ok && m.regs[2] == uint64(verifFuncAddr(vReplB)), "C01.keepalive.entry-reaches-current")
	verifReached("C01.keepalive")
}
