package patch

const vUserTop = uintptr(1) << 47

func vArmRepl(i int) int { return i }

// VC_C01_arm64_transfer: the arm64 entry jump reaches the code pointer stored in the func
// value with X26 (closure context) = func value, and changes no register that the Go
// arm64 ABI uses for arguments (R0-R15) or that the callee expects preserved; only X26
// and X27 (REGTMP) may be written.
func VC_C01_arm64_transfer() {
	from, to := verifUintptr("from"), verifUintptr("to")
	verifAssume(from < vUserTop)
	verifAssume(from >= 4096)
	verifAssume(from&3 == 0)
	verifAssume(to >= 4096)
	verifAssume(to+8 >= 8)
	code := jmpToFunctionValue(from, to)
	verifAssume(to+8 <= from || to >= from+uintptr(len(code)))
	var m varm
	m.havoc()
	before := m
	vstore(from, code)
	target := verifImgLoad64(to)
	jumped := m.runFrom(uint64(from))
	verifAssert(m.ok && jumped, "C01.arm64.entry-decodes")
	verifAssert(m.pc == target && m.x[26] == uint64(to), "C01.arm64.reaches-replacement")
	for i := 0; i < 32; i++ {
		if i != 26 && i != 27 {
			verifAssertClass(m.x[i] == before.x[i], "C01.arm64.argument-registers-unchanged", "F15")
		}
	}
	verifReached("C01.arm64.transfer")
}
