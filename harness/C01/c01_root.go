package mocker

import (
	"errors"
	"unsafe"
)

// C01 (mocker layer): the replacement installed by Apply/Return is what a call reaches, it
// sees the caller's arguments and the caller receives its results, for several
// signatures; a cancelled mocker's stub forwards to the original.

type vPair struct {
	A int
	S string
}

func vSigA(a int, b uint8, s string, p *int) (int, string) { return a, s }
func vSigB(v vPair, xs []int, e error, f func(int) int, rest ...int) (vPair, error) {
	return v, e
}

func vSigACb(a int, b uint8, s string, p *int) (int, string) {
	return a + int(b) + *p, s + "!"
}

func vSigBCb(v vPair, xs []int, e error, f func(int) int, rest ...int) (vPair, error) {
	n := 0
	for _, r := range rest {
		n += r
	}
	return vPair{A: v.A + f(len(xs)) + n, S: v.S}, e
}

func vInc(i int) int { return i + 1 }

// VC_C01_callback_signatures: a callback replaces the function for mixed signatures
// (integers of different widths, string, pointer, struct, slice, interface, func,
// variadic; multiple results): it receives exactly the arguments and the caller exactly
// its results.
func VC_C01_callback_signatures() {
	vEnv()
	vPristine(vSigA)
	vPristine(vSigB)
	verifApart(verifFuncCode(vSigA), verifFuncCode(vSigB), 32)
	b := Create()
	b.Func(vSigA).Apply(vSigACb)
	b.Func(vSigB).Apply(vSigBCb)
	a, bb, x := verifInt("a"), verifU8("b"), verifInt("x")
	fa := vInvoke(vSigA, "C01.sigA").(func(int, uint8, string, *int) (int, string))
	r1, r2 := fa(a, bb, "s", &x)
	verifAssert(r1 == a+int(bb)+x && r2 == "s!", "C01.callback.sigA-args-and-results")
	fb := vInvoke(vSigB, "C01.sigB").(func(vPair, []int, error, func(int) int, ...int) (vPair, error))
	v := vPair{A: verifInt("va"), S: "k"}
	t1, t2 := verifInt("t1"), verifInt("t2")
	rv, re := fb(v, []int{1, 2, 3}, nil, vInc, t1, t2)
	verifAssert(rv.A == v.A+4+t1+t2 && rv.S == "k" && re == nil, "C01.callback.sigB-args-and-results")
	b.Reset()
	verifAssert(!vDiverted(vSigA) && !vDiverted(vSigB), "C01.callback.reset-restores")
	verifReached("C01.callback")
}

// VC_C01_stub_results: a stubbed return is what the caller receives, with its exact
// values, for a multi-result signature.
func VC_C01_stub_results() {
	vEnv()
	vPristine(vSigA)
	b := Create()
	r := verifInt("r")
	b.Func(vSigA).Return(r, "stubbed")
	fa := vInvoke(vSigA, "C01.stub").(func(int, uint8, string, *int) (int, string))
	x := 1
	g1, g2 := fa(verifInt("a"), verifU8("b"), "q", &x)
	verifAssert(g1 == r && g2 == "stubbed", "C01.stub.caller-receives-configured-results")
	b.Reset()
	verifReached("C01.stub")
}

// VC_C01_cancelled_stub_forwards: once cancelled, the stub function object itself (still
// referenced by code that captured it) forwards to the original definition.
func VC_C01_cancelled_stub_forwards() {
	vEnv()
	vPristine(vTargetC01)
	b := Create()
	m := b.Func(vTargetC01)
	m.Return(5)
	stub := vInvoke(vTargetC01, "C01.cancel").(func(int) int)
	verifAssert(stub(1) == 5, "C01.cancel.stub-active")
	m.Cancel()
	verifAssert(!vDiverted(vTargetC01), "C01.cancel.entry-restored")
	verifAssert(stub(7) == vTargetC01(7), "C01.cancel.stale-stub-forwards-to-original")
	verifReached("C01.cancel")
}

func vTargetC01(i int) int { return i * 3 }

func vC01Two(a int, s string) (int, string) { return a, s }

func vC01TwoCb(a int, s string) (int, string) { return a*3 + 1, s + "-mock" }

// VC_C01_concurrent_callers: two goroutines call the mocked function at the same time
// (under an arbitrary logging configuration, so also through the debug wrapper): each
// caller receives the replacement's results for its own arguments; unsynchronised sharing
// between the calls is reported as a race.
func VC_C01_concurrent_callers() {
	vEnv()
	vPristine(vC01Two)
	b := Create()
	if verifBool("stub") {
		b.Func(vC01Two).Return(7, "stub")
	} else {
		b.Func(vC01Two).Apply(vC01TwoCb)
	}
	stubbed := vDiverted(vC01Two)
	verifAssert(stubbed, "C01.concurrent.mock-installed")
	f := vInvoke(vC01Two, "C01.concurrent").(func(int, string) (int, string))
	a1, a2 := verifInt("a1"), verifInt("a2")
	var r1, r2 int
	var s1, s2 string
	verifSpawn(func() { r1, s1 = f(a1, "x") })
	verifSpawn(func() { r2, s2 = f(a2, "y") })
	verifJoin()
	if s1 == "stub" {
		verifAssert(r1 == 7 && r2 == 7 && s2 == "stub", "C01.concurrent.stubbed-results-delivered")
	} else {
		verifAssert(r1 == a1*3+1 && s1 == "x-mock", "C01.concurrent.first-caller-gets-own-results")
		verifAssert(r2 == a2*3+1 && s2 == "y-mock", "C01.concurrent.second-caller-gets-own-results")
	}
	b.Reset()
	verifAssert(!vDiverted(vC01Two), "C01.concurrent.reset-restores")
	verifReached("C01.concurrent")
}

type vC01Node struct{ v int }
type vC01Handle struct{ n *vC01Node } // the declared (think: unnameable) result type
type vC01Fake struct{ n *vC01Node }   // identical layout
type vC01FakeW struct{ u uintptr }    // same layout, the word is not a pointer type

func vC01Open(i int) (vC01Handle, *vC01Node) { return vC01Handle{}, nil }

// VC_C01_stub_standin_results: stubbed results given as layout-compatible stand-ins
// (struct for struct, pointer for pointer) reach the caller as the values supplied.
func VC_C01_stub_standin_results() {
	vEnv()
	vPristine(vC01Open)
	node := &vC01Node{v: verifInt("v")}
	b := Create()
	if verifBool("wordFake") {
		b.Func(vC01Open).Return(vC01FakeW{u: uintptr(unsafe.Pointer(node))}, node)
	} else {
		b.Func(vC01Open).Return(vC01Fake{n: node}, node)
	}
	f := vInvoke(vC01Open, "C01.standin").(func(int) (vC01Handle, *vC01Node))
	h, p := f(verifInt("i"))
	verifAssert(h.n == node, "C01.standin.struct-result-holds-the-supplied-pointer")
	verifAssert(p == node, "C01.standin.pointer-result-is-the-supplied-pointer")
	b.Reset()
	verifAssert(!vDiverted(vC01Open), "C01.standin.reset-restores")
	verifReached("C01.standin")
}

// method values: mock.Func(obj.Method) goes by the method's symbol name ("...-fm" is the
// compiler's wrapper of the method value)
type vL01 struct{ n int }

func (l *vL01) Log(i int) int  { return i + 1 }
func (l *vL01) Logf(i int) int { return i + 2 }
func (l *vL01) Su(i int) int   { return i + 3 }
func (l *vL01) Sum(i int) int  { return i + 4 }

var vL01Names = [4]string{"Log", "Logf", "Su", "Sum"}

func vL01Method(k int) interface{} {
	switch k {
	case 0:
		return (*vL01).Log
	case 1:
		return (*vL01).Logf
	case 2:
		return (*vL01).Su
	}
	return (*vL01).Sum
}

// the symbol lookup itself is the subject of C10
//
//verif:stub github.com/tencent/goom/internal/unexports2.FindFuncByName
func vC01FindFuncByName(name string) (uintptr, error) {
	for k := 0; k < 4; k++ {
		if name == "github.com/tencent/goom.(*vL01)."+vL01Names[k] {
			return verifFuncCode(vL01Method(k)), nil
		}
	}
	return 0, errors.New("function symbol not found: " + name)
}

// VC_C01_method_value: a method mocked through its method value (obj.Method), for method
// names that end in letters of the "-fm" suffix: calls of that method reach the stubbed
// result, its shorter-named sibling is untouched.
func VC_C01_method_value() {
	vEnv()
	for k := 0; k < 4; k++ {
		vPristine(vL01Method(k))
		for j := 0; j < k; j++ {
			verifApart(verifFuncCode(vL01Method(k)), verifFuncCode(vL01Method(j)), 32)
		}
	}
	obj := &vL01{n: 1}
	mvs := [4]interface{}{obj.Log, obj.Logf, obj.Su, obj.Sum}
	k := verifChoice("method", 4)
	r := verifInt("r")
	b := Create()
	panicked := false
	func() {
		defer func() {
			if e := recover(); e != nil {
				panicked = true
			}
		}()
		b.Func(mvs[k]).Return(r)
	}()
	verifAssert(!panicked, "C01.method-value.accepted")
	for j := 0; j < 4; j++ {
		verifAssert(vDiverted(vL01Method(j)) == (j == k && !panicked), "C01.method-value.exactly-the-named-method-mocked")
	}
	b.Reset()
	for j := 0; j < 4; j++ {
		verifAssert(!vDiverted(vL01Method(j)), "C01.method-value.reset-restores")
	}
	verifReached("C01.method-value")
}

var vC01VoidSeen int

func vC01Void(i int) { vC01VoidSeen = i }

// VC_C01_no_results: a function without results stubbed by Return() - plainly or under a
// condition: a (matching) call runs the stub instead of the original and returns normally.
func VC_C01_no_results() {
	vEnv()
	vPristine(vC01Void)
	b := Create()
	x := verifInt("x")
	switch verifChoice("form", 3) {
	case 0:
		b.Func(vC01Void).Return()
	case 1:
		b.Func(vC01Void).When(x).Return()
	default:
		b.Func(vC01Void).When(x+1).Return().In(x, x+2).Return()
	}
	verifAssert(vDiverted(vC01Void), "C01.no-results.mock-installed")
	f, ok := vInvoke(vC01Void, "C01.no-results").(func(int))
	verifAssert(ok, "C01.no-results.installed-has-target-signature")
	if ok {
		vC01VoidSeen = -1
		panicked := false
		func() {
			defer func() {
				if e := recover(); e != nil {
					panicked = true
				}
			}()
			f(x)
		}()
		verifAssert(!panicked, "C01.no-results.stubbed-call-returns-normally")
		verifAssert(vC01VoidSeen == -1, "C01.no-results.original-not-run")
	}
	b.Reset()
	verifAssert(!vDiverted(vC01Void), "C01.no-results.reset-restores")
	verifReached("C01.no-results")
}

func vC01ReCb1(i int) int { return i + 10 }
func vC01ReCb2(i int) int { return i + 20 }

// VC_C01_reapply: a mock applied again on the same mocker (callback after callback,
// callback after stub, stub after callback) with no Reset in between: calls reach the
// replacement given last, with the caller's argument.
func VC_C01_reapply() {
	vEnv()
	vPristine(vTargetC01)
	b := Create()
	x, r := verifInt("x"), verifInt("r")
	want := 0
	switch verifChoice("sequence", 3) {
	case 0:
		b.Func(vTargetC01).Apply(vC01ReCb1)
		b.Func(vTargetC01).Apply(vC01ReCb2)
		want = x + 20
	case 1:
		b.Func(vTargetC01).Return(r)
		b.Func(vTargetC01).Apply(vC01ReCb1)
		want = x + 10
	default:
		b.Func(vTargetC01).Apply(vC01ReCb1)
		b.Func(vTargetC01).Return(r)
		want = r
	}
	verifAssert(vDiverted(vTargetC01), "C01.reapply.still-mocked")
	f, ok := vInvoke(vTargetC01, "C01.reapply").(func(int) int)
	verifAssert(ok && f(x) == want, "C01.reapply.calls-reach-the-replacement-given-last")
	b.Reset()
	verifAssert(!vDiverted(vTargetC01), "C01.reapply.reset-restores")
	verifReached("C01.reapply")
}
