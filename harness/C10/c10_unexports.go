package unexports2

import (
	"debug/gosym"
	"errors"
	"reflect"
)

// C10 (narrow): looking a symbol up by name yields file address + load slide of exactly
// that symbol, or an error — never another symbol's address.

const vPkg = "github.com/tencent/goom/internal/unexports2."

var vLoads int
var vLoadFails bool
var vTable *gosym.Table

// the executable's symbol table as read from disk (debug/elf, debug/gosym and the file
// system are outside; their result is an arbitrary table or an error)
//
//verif:stub github.com/tencent/goom/internal/unexports2.osReadSymbolsFromExeFile
func vStubReadSymbols() (*gosym.Table, error) {
	vLoads++
	if vLoadFails {
		return nil, errors.New("Unable to find ELF .gopclntab section")
	}
	return vTable, nil
}

var vFuncNames = [3]string{"example.com/p.alpha", "example.com/p.(*T).beta", "example.com/p.alph"}
var vVarNames = [3]string{"example.com/p.counter", "example.com/p.counterX", "example.com/q.counter"}
var vFN = [3]string{"f0", "f1", "f2"}
var vVN = [3]string{"d0", "d1", "d2"}

// vSetup builds a table of 3+1 functions and 3+1 data symbols at arbitrary file addresses;
// the loader maps text at +st and data at +sd.
func vSetup() (fa [3]uint64, va [3]uint64, st, sd uintptr) {
	st, sd = verifUintptr("slide.text"), verifUintptr("slide.data")
	vLoads, vLoadFails = 0, false
	symTable, symTableLoadError = nil, nil
	funcAlignment, varAlignment = 0, 0
	t := &gosym.Table{}
	for i := 0; i < 3; i++ {
		fa[i] = verifU64(vFN[i])
		va[i] = verifU64(vVN[i])
		t.Funcs = append(t.Funcs, gosym.Func{Entry: fa[i], Sym: &gosym.Sym{Name: vFuncNames[i], Value: fa[i]}})
		t.Syms = append(t.Syms, gosym.Sym{Name: vVarNames[i], Value: va[i]})
	}
	// the two reference symbols goom derives the slides from: their file addresses are
	// their run-time addresses minus the slides
	self := reflect.ValueOf(FindFuncByName).Pointer()
	t.Funcs = append(t.Funcs, gosym.Func{Entry: uint64(self - st), Sym: &gosym.Sym{Name: vPkg + "FindFuncByName"}})
	sv := reflect.ValueOf(&stubVar).Pointer()
	t.Syms = append(t.Syms, gosym.Sym{Name: vPkg + "stubVar", Value: uint64(sv - sd)})
	vTable = t
	return
}

func vFind(name string, isVar bool) (a uintptr, err error, panicked bool) {
	defer func() {
		if r := recover(); r != nil {
			panicked = true
		}
	}()
	if isVar {
		a, err = FindVarByName(name)
	} else {
		a, err = FindFuncByName(name)
	}
	return
}

// VC_C10_present: every symbol present in the table resolves to file address + slide.
func VC_C10_present() {
	fa, va, st, sd := vSetup()
	i := verifChoice("i", 3)
	a, err, p := vFind(vFuncNames[i], false)
	verifAssert(!p && err == nil, "C10.func.present-resolves")
	verifAssert(a == uintptr(fa[i])+st, "C10.func.exact-runtime-address")
	b, err2, p2 := vFind(vVarNames[i], true)
	verifAssert(!p2 && err2 == nil, "C10.var.present-resolves")
	verifAssert(b == uintptr(va[i])+sd, "C10.var.exact-runtime-address")
	verifAssert(vLoads == 1, "C10.table-read-once")
	verifReached("C10.present")
}

// VC_C10_stripped: the pc-line table (functions) is there but the ELF symbol table (data
// symbols) is stripped, which is what plain `go test` links: function lookups are still
// exact under the load slide, variable lookups fail with an error.
func VC_C10_stripped() {
	fa, _, st, _ := vSetup()
	vTable.Syms = nil
	i := verifChoice("i", 3)
	a, err, p := vFind(vFuncNames[i], false)
	verifAssert(!p && err == nil, "C10.stripped.func-present-resolves")
	verifAssert(a == uintptr(fa[i])+st, "C10.stripped.func-exact-runtime-address")
	b, err2, p2 := vFind(vVarNames[i], true)
	verifAssert(p2 || err2 != nil, "C10.stripped.var-is-error")
	verifAssert(b == 0, "C10.stripped.var-no-address")
	// in either order
	a2, err3, p3 := vFind(vFuncNames[(i+1)%3], false)
	verifAssert(!p3 && err3 == nil && a2 == uintptr(fa[(i+1)%3])+st, "C10.stripped.func-exact-after-failed-var-lookup")
	verifReached("C10.stripped")
}

// VC_C10_absent: absent and near-miss names yield an error, never an address.
func VC_C10_absent() {
	vSetup()
	near := [6]string{"example.com/p.alp", "example.com/p.alphaa", "example.com/p.Alpha", "", "example.com/p.count", "p.counter"}
	n := near[verifChoice("name", 6)]
	a, err, p := vFind(n, false)
	verifAssert(p || err != nil, "C10.func.absent-is-error")
	verifAssert(a == 0, "C10.func.absent-no-address")
	b, err2, p2 := vFind(n, true)
	verifAssert(p2 || err2 != nil, "C10.var.absent-is-error")
	verifAssert(b == 0, "C10.var.absent-no-address")
	verifReached("C10.absent")
}

// VC_C10_load_error: when the symbol table cannot be read every lookup fails, and the
// failure is sticky.
func VC_C10_load_error() {
	vSetup()
	vLoadFails = true
	i := verifChoice("i", 3)
	a, err, p := vFind(vFuncNames[i], false)
	verifAssert(p || err != nil, "C10.loaderr.func-is-error")
	verifAssert(a == 0, "C10.loaderr.func-no-address")
	b, err2, p2 := vFind(vVarNames[i], true)
	verifAssert(p2 || err2 != nil, "C10.loaderr.var-is-error")
	verifAssert(b == 0, "C10.loaderr.var-no-address")
	// even if the file became readable later, the error stays
	vLoadFails = false
	_, err3, p3 := vFind(vFuncNames[i], false)
	verifAssert(p3 || err3 != nil, "C10.loaderr.sticky")
	verifReached("C10.loaderr")
}

// VC_C10_new_func: the function value built for a looked-up code pointer carries exactly
// that code pointer.
func VC_C10_new_func() {
	code := verifUintptr("code")
	verifAssume(code >= 0x400000)
	verifAssume(code < 0x40000000)
	v := NewFuncWithCodePtr(reflect.TypeOf(func(int) int { return 0 }), code)
	verifAssert(v.Kind() == reflect.Func, "C10.newfunc.is-func")
	verifAssert(v.Pointer() == code, "C10.newfunc.code-pointer-is-the-one-looked-up")
	verifReached("C10.newfunc")
}

var vSeqN = [4]string{"n0", "n1", "n2", "n3"}

// VC_C10_lookup_sequence: what a lookup answers depends on its own name only, not on the
// lookups made before it (a repeated absent name after a successful lookup, alternating
// kinds, the same name twice): present names resolve exactly, absent ones are an error.
func VC_C10_lookup_sequence() {
	fa, va, st, sd := vSetup()
	absent := [3]string{"example.com/p.alp", "example.com/p.nope", "example.com/p.counte"}
	isVar := verifBool("vars")
	for step := 0; step < 4; step++ {
		k := verifChoice(vSeqN[step], 6)
		if k < 3 {
			if isVar {
				a, err, p := vFind(vVarNames[k], true)
				verifAssert(!p && err == nil && a == uintptr(va[k])+sd, "C10.sequence.present-resolves-exactly")
			} else {
				a, err, p := vFind(vFuncNames[k], false)
				verifAssert(!p && err == nil && a == uintptr(fa[k])+st, "C10.sequence.present-resolves-exactly")
			}
			continue
		}
		a, err, p := vFind(absent[k-3], isVar)
		verifAssert(p || err != nil, "C10.sequence.absent-is-error")
		verifAssert(a == 0, "C10.sequence.absent-no-address")
	}
	verifReached("C10.sequence")
}
