package mocker

import (
	"reflect"
	"unsafe"

	"github.com/tencent/goom/internal/bytecode/stub"
	"github.com/tencent/goom/internal/logger"
)

// C19 for interface mocks: the same interface-variable scenario (callback, or conditional
// and sequenced stub through As) under logging off and under an arbitrary logging
// configuration that may change between the mock and the calls (OpenDebug ... CloseDebug).

type vC19Svc interface {
	Alpha(x int) int
	Beta(x int) int
}

var vC19SvcV vC19Svc

type vObsI struct {
	r1, r2     int
	p1, p2     bool
	ok         bool
	restoredOK bool
}

func vC19CbAlpha(ctx *IContext, x int) int {
	if x == 77 {
		panic("callback refuses 77")
	}
	return x*2 + 1
}

func vC19RunI(console, level, console2, level2 int, kind int, x, c, r0, r1 int, id string) vObsI {
	logger.ConsoleLevel, logger.LogLevel = console, level
	stub.VerifResetMmap()
	vC19SvcV = nil
	t := reflect.TypeOf(&vC19SvcV).Elem()
	b := Create()
	switch kind {
	case 0:
		b.Interface(&vC19SvcV).Method("Alpha").Apply(vC19CbAlpha)
	case 1:
		b.Interface(&vC19SvcV).Method("Alpha").As(vC19CbAlpha).Return(r0)
	default:
		b.Interface(&vC19SvcV).Method("Alpha").As(vC19CbAlpha).When(c).Return(r0).AndReturn(r1)
	}
	logger.ConsoleLevel, logger.LogLevel = console2, level2
	o := vObsI{}
	if vC19SvcV == nil {
		return o
	}
	f, recv, notImpl := vDispatch(unsafe.Pointer(&vC19SvcV), vSlotOf(t, "Alpha"), id)
	if notImpl || f == nil {
		return o
	}
	o.ok = true
	o.r1, o.p1 = vCall07(f, recv, x)
	o.r2, o.p2 = vCall07(f, recv, x)
	b.Reset()
	o.restoredOK = vC19SvcV == nil
	return o
}

// VC_C19_interface: an interface-method mock (callback / stub / conditional sequenced
// stub) yields the same results and panics for two successive calls under logging off and
// under any logging configuration at mock time and any other at call time.
func VC_C19_interface() {
	vEnv()
	kind := verifChoice("kind", 3)
	x, c, r0, r1 := verifInt("x"), verifInt("c"), verifInt("r0"), verifInt("r1")
	if kind == 0 && verifBool("panicArg") {
		x = 77
	}
	if kind == 2 && verifBool("matching") {
		c = x
	}
	off := vC19RunI(logger.WarningLevel, logger.InfoLevel, logger.WarningLevel, logger.InfoLevel, kind, x, c, r0, r1, "C19.iface.off")
	on := vC19RunI(verifInt("console2"), verifInt("level2"), verifInt("console3"), verifInt("level3"), kind, x, c, r0, r1, "C19.iface.on")
	verifAssert(off.ok && on.ok, "C19.iface.mock-installed")
	verifAssert(off.p1 == on.p1 && off.p2 == on.p2, "C19.iface.same-panics")
	verifAssert(off.r1 == on.r1 && off.r2 == on.r2, "C19.iface.same-results")
	verifAssert(off.restoredOK && on.restoredOK, "C19.iface.reset-restores")
	verifReached("C19.iface")
}
