package mocker

import (
	"time"

	"github.com/tencent/goom/internal/logger"
)

// C19 for a mock of time.Now: goom's own log layout stamps every line with time.Now(), so
// the logging wrapper of such a mock must not log (it would call the mock again, without
// end). The console output function is replaced by its contract: when the line's level is
// enabled, the layout calls time.Now - through the image, i.e. whatever is installed there.

var vC19NowCalls int

//verif:stub github.com/tencent/goom/internal/logger.Consolefc
func vC19Consolefc(level int, format string, callerFn logger.CallerFn, a ...interface{}) {
	if level <= logger.ConsoleLevel && vDiverted(time.Now) {
		if f, ok := vInvoke(time.Now, "C19.timenow.layout").(func() time.Time); ok {
			_ = f()
		}
	}
}

func vC19NowCb() time.Time {
	vC19NowCalls++
	return time.Time{}
}

type vObsT struct {
	calls    int
	same     bool
	panicked bool
}

func vC19RunNow(console, level, console2, level2 int, viaReturn bool) vObsT {
	logger.ConsoleLevel, logger.LogLevel = console, level
	vC19NowCalls = 0
	b := Create()
	if viaReturn {
		b.Func(time.Now).Return(time.Time{})
	} else {
		b.Func(time.Now).Apply(vC19NowCb)
	}
	logger.ConsoleLevel, logger.LogLevel = console2, level2
	o := vObsT{}
	f, ok := vInvoke(time.Now, "C19.timenow").(func() time.Time)
	if ok {
		func() {
			defer func() {
				if r := recover(); r != nil {
					o.panicked = true
				}
			}()
			t := f()
			o.same = t == time.Time{}
		}()
	}
	o.calls = vC19NowCalls
	b.Reset()
	return o
}

// VC_C19_time_now: a mock of time.Now (callback or stub) called once: the same result
// and no panic under logging off and under any logging
// configuration at mock time and any other at call time; in particular the call ends.
func VC_C19_time_now() {
	vEnv()
	vPristine(time.Now)
	viaReturn := verifBool("viaReturn")
	off := vC19RunNow(logger.WarningLevel, logger.InfoLevel, logger.WarningLevel, logger.InfoLevel, viaReturn)
	on := vC19RunNow(verifInt("console2"), verifInt("level2"), verifInt("console3"), verifInt("level3"), viaReturn)
	verifAssert(off.same && !off.panicked, "C19.timenow.off-delivers-the-mocked-time")
	verifAssert(on.same == off.same && on.panicked == off.panicked, "C19.timenow.same-result-and-panics")
	// (how often the callback runs is not compared: with logging on, goom's own log layout
	// calls the mocked time.Now too)
	verifAssert(!vDiverted(time.Now), "C19.timenow.reset-restores")
	verifReached("C19.timenow")
}
