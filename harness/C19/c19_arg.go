package arg

import (
	"errors"
	"reflect"
)

// C19 (rendering): arg.SprintV never panics on the values a mocked call can carry.

type vNode struct {
	next *vNode
	v    int
	priv string
}

type vBytesIn struct{ id [2]byte }

type vErrT struct{}

func (*vErrT) Error() string { return "typed nil" }

func vIfaceValue(x interface{}, t reflect.Type) reflect.Value {
	p := reflect.New(t)
	if x != nil {
		p.Elem().Set(reflect.ValueOf(x))
	}
	return p.Elem()
}

func VC_C19_render() {
	anyT := reflect.TypeOf((*interface{})(nil)).Elem()
	errT := reflect.TypeOf((*error)(nil)).Elem()
	var np *int
	x := verifInt("x")
	px := &x
	ppn := &np
	ppx := &px
	var te *vErrT
	self := &vNode{v: x, priv: "p"}
	self.next = self
	var cyc interface{}
	cyc = &cyc
	vals := []reflect.Value{
		reflect.ValueOf(np),                    // nil pointer
		reflect.ValueOf(px),                    // pointer
		reflect.ValueOf(ppn),                   // pointer to nil pointer
		reflect.ValueOf(ppx),                   // pointer to pointer
		vIfaceValue(nil, anyT),                 // nil interface
		vIfaceValue(nil, errT),                 // nil error
		vIfaceValue(np, anyT),                  // typed nil pointer inside interface
		vIfaceValue(te, errT),                  // typed nil error
		vIfaceValue(errors.New("boom"), errT),  // non-nil error
		vIfaceValue(x, anyT),                   // int in interface
		reflect.ValueOf(self),                  // self-referential, unexported fields
		reflect.ValueOf(*self),                 // struct with unexported fields
		reflect.ValueOf(x),
		reflect.ValueOf("s"),
		reflect.ValueOf([]int{1, 2}),
		reflect.ValueOf(map[string]int{"a": 1}),
		reflect.ValueOf(cyc),                   // interface cycle
		reflect.ValueOf([4]byte{1, 2, 3, 4}),   // byte array by value (not addressable)
		reflect.ValueOf([]byte{1, 2}),          // byte slice
		reflect.ValueOf([]byte(nil)),           // nil byte slice
		reflect.ValueOf(vBytesIn{id: [2]byte{7, 8}}), // struct holding a byte array
		reflect.ValueOf([2]string{"a", "b"}),   // array of another element type
		reflect.ValueOf(func() {}),             // func
		reflect.ValueOf((func())(nil)),         // nil func
		reflect.ValueOf(map[string]*int{"n": nil}), // map holding a nil pointer
		reflect.ValueOf([]*int{nil, px}),       // slice holding a nil pointer
		reflect.ValueOf(&[]int{1}),             // pointer to slice
		reflect.ValueOf(uint8(200)),
		reflect.ValueOf(true),
	}
	k := verifChoice("case", len(vals))
	panicked := false
	func() {
		defer func() {
			if r := recover(); r != nil {
				panicked = true
			}
		}()
		_ = SprintV(vals[k : k+1])
	}()
	verifAssert(!panicked, "C19.render.no-panic")
	verifReached("C19.render")
}
