package mocker

import (
	"errors"

	"github.com/tencent/goom/internal/logger"
)

// C19: debug and trace logging never change what a mock does.

func vC19F(a int, rest ...int) int  { return a }
func vC19G(p *int, e error) (int, error) { return 0, nil }

type vObs struct {
	calls    int
	a        int
	nrest    int
	rest0    int
	res      int
	panicked bool
	diverted bool
	restNil  bool // the callback got a nil variadic slice
	wrote    int  // what the caller finds in its own slice after the callback wrote rest[0]
}

var vC19Seen vObs

// the callback records what it sees; it panics for one designated argument
func vC19Cb(a int, rest ...int) int {
	vC19Seen.calls++
	vC19Seen.a = a
	vC19Seen.nrest = len(rest)
	vC19Seen.restNil = rest == nil
	if len(rest) > 0 {
		vC19Seen.rest0 = rest[0]
		rest[0] = 4242 // visible to a caller that spread its own slice: f(a, xs...)
	}
	if a == 77 {
		panic("callback panics on 77")
	}
	return a*2 + len(rest)
}

// vC19Run: mock vC19F with the recording callback (or with a stub) under the given
// logging configuration, call it, reset, and return everything observable.
func vC19Run(console, level int, stub bool, a int, rest []int) vObs {
	return vC19Run2(console, level, console, level, stub, a, rest)
}

// vC19Run2: as vC19Run, with the logging configuration at the time of the calls
// (console2, level2) independent of the one at configuration time.
func vC19Run2(console, level, console2, level2 int, stub bool, a int, rest []int) vObs {
	logger.ConsoleLevel, logger.LogLevel = console, level
	vC19Seen = vObs{}
	b := Create()
	if stub {
		b.Func(vC19F).When(a, 5).Return(41).AndReturn(42)
	} else {
		b.Func(vC19F).Apply(vC19Cb)
	}
	o := vObs{}
	logger.ConsoleLevel, logger.LogLevel = console2, level2
	f := vInvoke(vC19F, "C19.run").(func(int, ...int) int)
	func() {
		defer func() {
			if r := recover(); r != nil {
				o.panicked = true
			}
		}()
		o.res = f(a, rest...)
		if stub {
			o.res = o.res*100 + f(a, rest...) // second element of the sequence
		}
	}()
	o.calls, o.a, o.nrest, o.rest0 = vC19Seen.calls, vC19Seen.a, vC19Seen.nrest, vC19Seen.rest0
	o.restNil = vC19Seen.restNil
	if len(rest) > 0 {
		o.wrote = rest[0]
	}
	b.Reset()
	o.diverted = vDiverted(vC19F)
	return o
}

func vC19Compare(stub bool, id string) {
	vEnv()
	vPristine(vC19F)
	a := verifInt("a")
	if !stub {
		if verifBool("panicArg") {
			a = 77
		}
	}
	n := verifChoice("nrest", 3)
	rest := make([]int, n)
	for i := 0; i < n; i++ {
		rest[i] = verifInt(vC19RestN[i])
	}
	if stub {
		rest = []int{5} // the stub's condition is When(a, 5)
	}
	// run 1: logging off (console below debug, level below trace)
	// (each run gets its own copy of the caller's slice: the callback writes into it)
	rest2 := make([]int, len(rest))
	copy(rest2, rest)
	off := vC19Run(logger.WarningLevel, logger.InfoLevel, stub, a, rest)
	// run 2: an arbitrary logging configuration (covers OpenDebug, OpenTrace, GOOM_DEBUG)
	// (the configuration may also change between Apply and the calls: OpenDebug ... CloseDebug)
	on := vC19Run2(verifInt("console2"), verifInt("level2"), verifInt("console3"), verifInt("level3"), stub, a, rest2)
	verifAssert(off.calls == on.calls, id+".same-call-count")
	verifAssert(off.a == on.a && off.nrest == on.nrest && off.rest0 == on.rest0, id+".same-arguments-seen")
	verifAssert(off.restNil == on.restNil && off.wrote == on.wrote, id+".same-variadic-slice-handed-over")
	verifAssert(off.panicked == on.panicked, id+".same-panics")
	verifAssert(off.res == on.res, id+".same-results")
	verifAssert(!off.diverted && !on.diverted, id+".reset-restores")
	verifReached(id)
}

var vC19RestN = [3]string{"rest0", "rest1", "rest2"}

// VC_C19_callback_variadic: a callback mock of a variadic function.
func VC_C19_callback_variadic() { vC19Compare(false, "C19.callback") }

// VC_C19_stub_sequence: a conditional, sequenced stub of the same function.
func VC_C19_stub_sequence() { vC19Compare(true, "C19.stub") }

// VC_C19_nil_values: a mock whose arguments/results are nil pointers, typed nil pointers
// inside interfaces and nil errors behaves identically under every logging configuration
// (rendering them for the log must not panic).
func VC_C19_nil_values() {
	vEnv()
	vPristine(vC19G)
	x := 5
	var np *int
	ps := [2]*int{&x, np}
	var tn *vC19Err
	es := [3]error{nil, errors.New("e"), tn}
	p := ps[verifChoice("p", 2)]
	e := es[verifChoice("e", 3)]
	run := func(console, level int) (r int, re error, panicked bool) {
		logger.ConsoleLevel, logger.LogLevel = console, level
		b := Create()
		b.Func(vC19G).Apply(func(p *int, e error) (int, error) {
			if p == nil {
				return -1, e
			}
			return *p, e
		})
		f := vInvoke(vC19G, "C19.nil").(func(*int, error) (int, error))
		func() {
			defer func() {
				if rec := recover(); rec != nil {
					panicked = true
				}
			}()
			r, re = f(p, e)
		}()
		b.Reset()
		return
	}
	r1, e1, p1 := run(logger.WarningLevel, logger.InfoLevel)
	r2, e2, p2 := run(verifInt("console2"), verifInt("level2"))
	verifAssert(!p1, "C19.nil.no-panic-logging-off")
	verifAssert(p1 == p2, "C19.nil.same-panics")
	verifAssert(r1 == r2 && e1 == e2, "C19.nil.same-results")
	verifReached("C19.nil")
}

type vC19Err struct{}

func (*vC19Err) Error() string { return "typed nil" }

func vC19Pure(a int, rest ...int) int { return a*2 + len(rest) }

// VC_C19_overlapping_calls: two goroutines call the same callback mock at once under an
// arbitrary logging configuration: each caller gets the result of its own call (the
// logging wrapper keeps nothing between calls), with every interleaving at the
// synchronisation points of the logging path explored and unsynchronised sharing
// reported as a race.
func VC_C19_overlapping_calls() {
	vEnv()
	vPristine(vC19F)
	logger.ConsoleLevel, logger.LogLevel = verifInt("console2"), verifInt("level2")
	b := Create()
	b.Func(vC19F).Apply(vC19Pure)
	f := vInvoke(vC19F, "C19.overlap").(func(int, ...int) int)
	a1, a2 := verifInt("a1"), verifInt("a2")
	var r1, r2 int
	verifSpawn(func() { r1 = f(a1) })
	verifSpawn(func() { r2 = f(a2, 1) })
	verifJoin()
	verifAssert(r1 == a1*2, "C19.overlap.first-caller-gets-own-result")
	verifAssert(r2 == a2*2+1, "C19.overlap.second-caller-gets-own-result")
	b.Reset()
	verifAssert(!vDiverted(vC19F), "C19.overlap.reset-restores")
	verifReached("C19.overlap")
}

// vC19Toggle performs one of the public logging switches.
func vC19Toggle(name string) {
	switch verifChoice(name, 5) {
	case 0:
	case 1:
		OpenDebug()
	case 2:
		OpenTrace()
	case 3:
		OpenDebug()
		CloseDebug()
	case 4:
		OpenTrace()
		CloseTrace()
	}
}

// VC_C19_api_toggles: the same comparison with the logging configuration produced by the
// public switches (OpenDebug, OpenTrace, CloseDebug, CloseTrace) called before the mock
// is applied and again between Apply and the calls.
func VC_C19_api_toggles() {
	vEnv()
	vPristine(vC19F)
	a := verifInt("a")
	r0 := verifInt("rest0")
	rest := []int{r0}
	off := vC19Run(logger.WarningLevel, logger.InfoLevel, false, a, rest)
	rest = []int{r0} // the callback wrote into the first run's slice
	// run 2 under the switches
	logger.ConsoleLevel, logger.LogLevel = logger.WarningLevel, logger.InfoLevel
	vC19Toggle("toggleBefore")
	vC19Seen = vObs{}
	b := Create()
	b.Func(vC19F).Apply(vC19Cb)
	vC19Toggle("toggleBetween")
	on := vObs{}
	f := vInvoke(vC19F, "C19.api").(func(int, ...int) int)
	func() {
		defer func() {
			if r := recover(); r != nil {
				on.panicked = true
			}
		}()
		on.res = f(a, rest...)
	}()
	on.calls, on.a, on.nrest, on.rest0 = vC19Seen.calls, vC19Seen.a, vC19Seen.nrest, vC19Seen.rest0
	b.Reset()
	on.diverted = vDiverted(vC19F)
	verifAssert(off.calls == on.calls, "C19.api.same-call-count")
	verifAssert(off.a == on.a && off.nrest == on.nrest && off.rest0 == on.rest0, "C19.api.same-arguments-seen")
	verifAssert(off.panicked == on.panicked, "C19.api.same-panics")
	verifAssert(off.res == on.res, "C19.api.same-results")
	verifAssert(!off.diverted && !on.diverted, "C19.api.reset-restores")
	verifReached("C19.api")
}

func vC19Outer(i int) int { return i }
func vC19Inner(i int) int { return i }

// VC_C19_nested_mocks: a mock callback that calls another mocked function (each call goes
// through its own logging wrapper when logging is on): the same result with logging off
// and under any logging configuration - in particular the nested call returns.
func VC_C19_nested_mocks() {
	vEnv()
	vPristine(vC19Outer)
	vPristine(vC19Inner)
	verifApart(verifFuncCode(vC19Outer), verifFuncCode(vC19Inner), 32)
	x := verifInt("x")
	run := func(console, level, console2, level2 int) (res int, panicked bool) {
		logger.ConsoleLevel, logger.LogLevel = console, level
		b := Create()
		b.Func(vC19Inner).Apply(func(i int) int { return i + 7 })
		b.Func(vC19Outer).Apply(func(i int) int {
			inner := vInvoke(vC19Inner, "C19.nested.inner").(func(int) int)
			return inner(i) + 100
		})
		logger.ConsoleLevel, logger.LogLevel = console2, level2
		f := vInvoke(vC19Outer, "C19.nested").(func(int) int)
		func() {
			defer func() {
				if r := recover(); r != nil {
					panicked = true
				}
			}()
			res = f(x)
		}()
		b.Reset()
		return
	}
	r1, p1 := run(logger.WarningLevel, logger.InfoLevel, logger.WarningLevel, logger.InfoLevel)
	r2, p2 := run(verifInt("console2"), verifInt("level2"), verifInt("console3"), verifInt("level3"))
	verifAssert(!p1 && r1 == x+107, "C19.nested.off-delivers")
	verifAssert(p2 == p1 && r2 == r1, "C19.nested.same-results-and-panics")
	verifAssert(!vDiverted(vC19Outer) && !vDiverted(vC19Inner), "C19.nested.reset-restores")
	verifReached("C19.nested")
}
