package mocker

// C02 (builder/mocker layer): after Reset or Cancel the function's entry is byte for byte
// the pristine one again, for histories through a retained mocker handle and through
// several builders.

func vC02Target(i int) int { return i + 1 }
func vC02CbA(i int) int    { return i + 1000 }
func vC02CbB(i int) int    { return i + 2000 }

var vC02Ops = [6]string{"op0", "op1", "op2", "op3", "op4", "op5"}

func vEntryPristine(snap int, target interface{}, id string) {
	e := verifFuncCode(target)
	for k := 0; k < 13; k++ {
		verifAssert(verifImgLoad(e+uintptr(k)) == verifImgAt(snap, e+uintptr(k)), id)
	}
}

func vAllPristine(snap int, id string) {
	n := verifImgDistinctWritten()
	for i := 0; i < n; i++ {
		w := verifImgDistinctAddr(i)
		verifAssert(verifImgLoad(w) == verifImgAt(snap, w), id)
	}
}

// VC_C02_retained: histories of K operations through one retained mocker handle and its
// builder: Apply(cbA|cbB), Return(v), Cancel on the handle, Reset on the builder.
func vRetained(K int) {
	vEnv()
	vPristine(vC02Target)
	snap := verifImgSnap()
	b := Create()
	m := b.Func(vC02Target)
	live := false
	for step := 0; step < K; step++ {
		switch verifChoice(vC02Ops[step], 5) {
		case 0:
			m.Apply(vC02CbA)
			live = true
		case 1:
			m.Apply(vC02CbB)
			live = true
		case 2:
			m.Return(verifInt("v"))
			live = true
		case 3:
			m.Cancel()
			live = false
		case 4:
			b.Reset()
			live = false
		}
		if !live {
			vEntryPristine(snap, vC02Target, "C02.retained.cancel-restores-entry")
			vAllPristine(snap, "C02.retained.cancel-restores-image")
		} else {
			verifAssert(vDiverted(vC02Target), "C02.retained.mock-installed")
		}
	}
	b.Reset()
	vEntryPristine(snap, vC02Target, "C02.retained.final-reset-restores")
	vAllPristine(snap, "C02.retained.final-reset-restores-image")
	verifReached("C02.retained")
}

func VC_C02_retained_h3() { vRetained(3) }
func VC_C02_retained_h4() { vRetained(4) }

// VC_C02_two_builders: two builders mocking two different functions and resetting in any
// order: each Reset restores its own target only, at the end everything is pristine.
func vC02Target2(i int) int { return i + 2 }

func VC_C02_two_builders() {
	vEnv()
	vPristine(vC02Target)
	vPristine(vC02Target2)
	verifApart(verifFuncCode(vC02Target), verifFuncCode(vC02Target2), 32)
	snap := verifImgSnap()
	b1, b2 := Create(), Create()
	b1.Func(vC02Target).Apply(vC02CbA)
	b2.Func(vC02Target2).Return(verifInt("v"))
	if verifChoice("order", 2) == 0 {
		b1.Reset()
		vEntryPristine(snap, vC02Target, "C02.builders.reset-restores-own")
		verifAssert(vDiverted(vC02Target2), "C02.builders.reset-leaves-other-mocked")
		b2.Reset()
	} else {
		b2.Reset()
		vEntryPristine(snap, vC02Target2, "C02.builders.reset-restores-own")
		verifAssert(vDiverted(vC02Target), "C02.builders.reset-leaves-other-mocked")
		b1.Reset()
	}
	vAllPristine(snap, "C02.builders.all-reset-is-pristine")
	// a second Reset changes nothing
	b1.Reset()
	b2.Reset()
	vAllPristine(snap, "C02.builders.second-reset-is-noop")
	verifReached("C02.builders")
}
