package mocker

import "errors"

// C02 (builder/mocker layer): after Reset or Cancel the function's entry is byte for byte
// the pristine one again, for histories through a retained mocker handle and through
// several builders.

func vC02Target(i int) int { return i + 1 }
func vC02CbA(i int) int    { return i + 1000 }
func vC02CbB(i int) int    { return i + 2000 }

var vC02NotAFunc int

var vC02Ops = [6]string{"op0", "op1", "op2", "op3", "op4", "op5"}

func vEntryPristine(snap int, target interface{}, id string) {
	e := verifFuncCode(target)
	for k := 0; k < 13; k++ {
		verifAssert(verifImgLoad(e+uintptr(k)) == verifImgAt(snap, e+uintptr(k)), id)
	}
}

func vAllPristine(snap int, id string) {
	n := verifImgDistinctWritten()
	for i := 0; i < n; i++ {
		w := verifImgDistinctAddr(i)
		verifAssert(verifImgLoad(w) == verifImgAt(snap, w), id)
	}
}

// VC_C02_retained: histories of K operations through one retained mocker handle and its
// builder: Apply(cbA|cbB), Return(v), Cancel on the handle, Reset on the builder.
func vRetained(K int) {
	vEnv()
	vPristine(vC02Target)
	snap := verifImgSnap()
	b := Create()
	m := b.Func(vC02Target)
	live := false
	for step := 0; step < K; step++ {
		switch verifChoice(vC02Ops[step], 6) {
		case 5:
			// a re-apply that goom rejects (an origin placeholder that is not a function):
			// the caller recovers the panic; whatever was installed before stays as it was
			func() {
				defer func() {
					m.Origin(nil)
					recover()
				}()
				m.Origin(&vC02NotAFunc).Apply(vC02CbB)
				verifAssert(false, "C02.retained.bad-origin-is-rejected")
			}()
		case 0:
			m.Apply(vC02CbA)
			live = true
		case 1:
			m.Apply(vC02CbB)
			live = true
		case 2:
			m.Return(verifInt("v"))
			live = true
		case 3:
			m.Cancel()
			live = false
		case 4:
			b.Reset()
			live = false
		}
		if !live {
			vEntryPristine(snap, vC02Target, "C02.retained.cancel-restores-entry")
			vAllPristine(snap, "C02.retained.cancel-restores-image")
		} else {
			verifAssert(vDiverted(vC02Target), "C02.retained.mock-installed")
		}
	}
	b.Reset()
	vEntryPristine(snap, vC02Target, "C02.retained.final-reset-restores")
	vAllPristine(snap, "C02.retained.final-reset-restores-image")
	verifReached("C02.retained")
}

func VC_C02_retained_h3() { vRetained(3) }
func VC_C02_retained_h4() { vRetained(4) }

// VC_C02_two_builders: two builders mocking two different functions and resetting in any
// order: each Reset restores its own target only, at the end everything is pristine.
func vC02Target2(i int) int { return i + 2 }

func VC_C02_two_builders() {
	vEnv()
	vPristine(vC02Target)
	vPristine(vC02Target2)
	verifApart(verifFuncCode(vC02Target), verifFuncCode(vC02Target2), 32)
	snap := verifImgSnap()
	b1, b2 := Create(), Create()
	b1.Func(vC02Target).Apply(vC02CbA)
	b2.Func(vC02Target2).Return(verifInt("v"))
	if verifChoice("order", 2) == 0 {
		b1.Reset()
		vEntryPristine(snap, vC02Target, "C02.builders.reset-restores-own")
		verifAssert(vDiverted(vC02Target2), "C02.builders.reset-leaves-other-mocked")
		b2.Reset()
	} else {
		b2.Reset()
		vEntryPristine(snap, vC02Target2, "C02.builders.reset-restores-own")
		verifAssert(vDiverted(vC02Target), "C02.builders.reset-leaves-other-mocked")
		b1.Reset()
	}
	vAllPristine(snap, "C02.builders.all-reset-is-pristine")
	// a second Reset changes nothing
	b1.Reset()
	b2.Reset()
	vAllPristine(snap, "C02.builders.second-reset-is-noop")
	verifReached("C02.builders")
}

// ---- unexported methods of a struct in another package, addressed by name ----

type vC02T struct{ n int }

func (t *vC02T) first(i int) int  { return i + 1 }
func (t *vC02T) second(i int) int { return i + 2 }

func vC02CbM1(t *vC02T, i int) int { return i + 1000 }
func vC02CbM2(t *vC02T, i int) int { return i + 2000 }

// the symbol lookup itself is the subject of C10: exact address for the two names, an
// error for every other name
//
//verif:stub github.com/tencent/goom/internal/unexports2.FindFuncByName
func vC02FindFuncByName(name string) (uintptr, error) {
	switch name {
	case "other/pkg.(*vC02T).first":
		return verifFuncCode((*vC02T).first), nil
	case "other/pkg.(*vC02T).second":
		return verifFuncCode((*vC02T).second), nil
	}
	return 0, errors.New("func not found: " + name)
}

// VC_C02_pkg_struct: two methods of an unexported struct of another package are mocked
// through separate Pkg(...).ExportStruct(...) lookups (or one chained lookup); Reset
// restores both entries byte for byte, a second Reset changes nothing. (No native
// cross-validation: natively the real symbol lookup runs, which is C10's subject.)
//
//verif:opt xcheck=off
func VC_C02_pkg_struct() {
	vEnv()
	vPristine((*vC02T).first)
	vPristine((*vC02T).second)
	verifApart(verifFuncCode((*vC02T).first), verifFuncCode((*vC02T).second), 32)
	snap := verifImgSnap()
	b := Create()
	if verifBool("separateLookups") {
		b.Pkg("other/pkg").ExportStruct("*vC02T").Method("first").Apply(vC02CbM1)
		b.Pkg("other/pkg").ExportStruct("*vC02T").Method("second").Apply(vC02CbM2)
	} else {
		s := b.Pkg("other/pkg").ExportStruct("*vC02T")
		s.Method("first").Apply(vC02CbM1)
		s.Method("second").Apply(vC02CbM2)
	}
	verifAssert(vDiverted((*vC02T).first), "C02.pkg-struct.first-mocked")
	verifAssert(vDiverted((*vC02T).second), "C02.pkg-struct.second-mocked")
	b.Reset()
	vEntryPristine(snap, (*vC02T).first, "C02.pkg-struct.reset-restores-first")
	vEntryPristine(snap, (*vC02T).second, "C02.pkg-struct.reset-restores-second")
	vAllPristine(snap, "C02.pkg-struct.reset-restores-image")
	b.Reset()
	vAllPristine(snap, "C02.pkg-struct.second-reset-is-noop")
	verifReached("C02.pkg-struct")
}
