package patch

// C02: Reset/Cancel restores the exact original bytes; at every point of any history of
// mock / re-mock / cancel / UnpatchAll over two targets the image differs from the
// pristine image only inside entry windows of currently mocked targets.

type vGuardRec struct {
	g         *Guard
	target    int
	repl      int
	cancelled bool
	applied   bool // Apply has been called on it (a guard is created un-applied)
	tracked   bool // still the patch-table entry of its target (no UnpatchAll / re-mock since)
}

var vGuards [8]vGuardRec
var vNumGuards int
var vReplFns = [3]interface{}{vReplA, vReplB, vReplC}
var vOpNames = [6]string{"op0", "op1", "op2", "op3", "op4", "op5"}
// vLateOK: histories may create guards without applying them at once
var vLateOK = true
var vLateNames = [6]string{"late0", "late1", "late2", "late3", "late4", "late5"}
var vArgNames = [6]string{"arg0", "arg1", "arg2", "arg3", "arg4", "arg5"}

// vLiveT: the entry window of target t currently holds a jump (of the guard vWin[t]).
var vLiveT [2]bool
var vWin [2]int

func vWindowIsJump(t *vTarget, r int, id string) {
	want := jmpToFunctionValue(t.addr, verifFuncAddr(vReplFns[r]))
	for k := 0; k < len(want); k++ {
		verifAssert(verifImgLoad(t.addr+uintptr(k)) == want[k], id)
	}
}

func vWindowPristine(snap int, t *vTarget, id string) {
	for k := 0; k < 13; k++ {
		verifAssert(verifImgLoad(t.addr+uintptr(k)) == verifImgAt(snap, t.addr+uintptr(k)), id)
	}
}

// vInvariant: every byte ever written either holds its pristine value again or lies in
// the 13-byte entry window of a live target. (The image equals the pristine image except
// at logged write addresses, so this covers every address.)
func vInvariant(snap int, ts [2]*vTarget) {
	n := verifImgDistinctWritten()
	for i := 0; i < n; i++ {
		w := verifImgDistinctAddr(i)
		same := verifImgLoad(w) == verifImgAt(snap, w)
		in0 := verifAnd(vLiveT[0], w-ts[0].addr < 13)
		in1 := verifAnd(vLiveT[1], w-ts[1].addr < 13)
		verifAssert(verifOr(same, verifOr(in0, in1)), "C02.hist.diff-only-in-live-windows")
	}
}

func vTinyPlaceholder(i int) int { return i }

func vHistory(K int) {
	vReset()
	vNumGuards = 0
	vLiveT = [2]bool{}
	vWin = [2]int{-1, -1}
	var ts [2]*vTarget
	ts[0], ts[1] = vNewTarget(), vNewTarget()
	verifAssume(ts[0].size >= 32)
	verifAssume(ts[1].size >= 32)
	// at least one page apart
	verifApart(ts[0].addr, ts[1].addr, 4096)
	verifApart(ts[0].addr, verifFuncCode(vTinyPlaceholder), 4096)
	verifApart(ts[1].addr, verifFuncCode(vTinyPlaceholder), 4096)
	// pristine entry bytes are not the already-patched sentinel (else goom refuses: C13/C14)
	verifAssume(verifImgLoad(ts[0].addr) != 0x90)
	verifAssume(verifImgLoad(ts[1].addr) != 0x90)
	snap := verifImgSnap()
	for step := 0; step < K; step++ {
		switch verifChoice(vOpNames[step], 5) {
		case 4:
			// a mock of target ti that goom rejects after it has already taken the target's
			// previous patch off (origin placeholder too small for the jump): the target is
			// left un-mocked and pristine, and nothing of a former mock comes back
			ti := verifChoice(vArgNames[step], 2)
			tiny := verifFuncCode(vTinyPlaceholder)
			known := false
			for j := 0; j < vNumTargets; j++ {
				if vTargets[j].addr == tiny {
					known = true
				}
			}
			if !known {
				vTargets[vNumTargets] = vTarget{addr: tiny, size: 5}
				vNumTargets++
			}
			_, err := PtrTrampoline(ts[ti].addr, vReplFns[0], vTinyPlaceholder)
			verifAssert(err != nil, "C02.hist.tiny-placeholder-is-rejected")
			vLiveT[ti] = false
			vWin[ti] = -1
			for j := 0; j < vNumGuards; j++ {
				if vGuards[j].target == ti {
					vGuards[j].tracked = false
				}
			}
		case 3: // Restore any guard obtained so far: its jump is back in its target's window
			if vNumGuards == 0 {
				return
			}
			gi := verifChoice(vArgNames[step], vNumGuards)
			rec := &vGuards[gi]
			if !rec.tracked {
				// re-applying a guard that the patch table no longer knows (after UnpatchAll,
				// or superseded by a later mock of the same target) installs a jump nobody
				// tracks: not one of the property's operations
				return
			}
			if !rec.applied {
				// a guard that was created but not applied yet: Restore has nothing to
				// re-apply (the target stays as it is), Apply installs it
				if verifBool(vLateNames[step]) {
					rec.g.Apply()
					rec.applied = true
				} else {
					rec.g.Restore()
					break
				}
			} else {
				rec.g.Restore()
			}
			rec.cancelled = false
			vLiveT[rec.target] = true
			vWin[rec.target] = gi
			vWindowIsJump(ts[rec.target], rec.repl, "C02.hist.restore-reinstalls-own-jump")
		case 0: // mock(t, r)
			a := verifChoice(vArgNames[step], 4)
			ti, r := a&1, a>>1
			g, err := PtrTrampoline(ts[ti].addr, vReplFns[r], nil)
			verifAssert(err == nil, "C02.hist.mock-accepted")
			if err != nil {
				return
			}
			for j := 0; j < vNumGuards; j++ {
				if vGuards[j].target == ti {
					vGuards[j].tracked = false
				}
			}
			if vLateOK && verifBool(vLateNames[step]) {
				// the guard is kept un-applied for now (the constructor has taken a former
				// mock of the target off): the target is pristine
				vGuards[vNumGuards] = vGuardRec{g: g, target: ti, repl: r, tracked: true}
				vNumGuards++
				vLiveT[ti] = false
				vWin[ti] = -1
				break
			}
			g.Apply()
			vGuards[vNumGuards] = vGuardRec{g: g, target: ti, repl: r, tracked: true, applied: true}
			vWin[ti] = vNumGuards
			vNumGuards++
			vLiveT[ti] = true
			vWindowIsJump(ts[ti], r, "C02.hist.window-holds-jump")
			buf := verifImgSlice(ts[ti].addr, 13)
			verifAssert(checkAlreadyPatch(buf), "C02.hist.sentinel-recognised")
		case 1: // cancel any guard obtained so far (also stale or already cancelled ones)
			if vNumGuards == 0 {
				return
			}
			gi := verifChoice(vArgNames[step], vNumGuards)
			rec := &vGuards[gi]
			rec.g.UnpatchWithLock()
			if !rec.applied {
				break // cancelling a guard that was never applied changes nothing
			}
			rec.cancelled = true
			// the target of that guard is pristine again right after the cancel
			vWindowPristine(snap, ts[rec.target], "C02.hist.cancel-restores-window")
			// whichever guard's jump was there: the window is pristine now
			vLiveT[rec.target] = false
			vWin[rec.target] = -1
		case 2:
			UnpatchAll()
			vWindowPristine(snap, ts[0], "C02.hist.unpatchall-restores")
			vWindowPristine(snap, ts[1], "C02.hist.unpatchall-restores")
			vLiveT = [2]bool{}
			vWin = [2]int{-1, -1}
			for j := 0; j < vNumGuards; j++ {
				vGuards[j].tracked = false
			}
		}
		vInvariant(snap, ts)
		// the window of a live target holds exactly the jump of the guard that wrote last
		for t := 0; t < 2; t++ {
			if vLiveT[t] {
				vWindowIsJump(ts[t], vGuards[vWin[t]].repl, "C02.hist.live-window-holds-last-jump")
			} else {
				vWindowPristine(snap, ts[t], "C02.hist.dead-window-is-pristine")
			}
		}
		all := vNumGuards > 0 && !vLiveT[0] && !vLiveT[1]
		if all {
			n := verifImgDistinctWritten()
			for i := 0; i < n; i++ {
				w := verifImgDistinctAddr(i)
				verifAssert(verifImgLoad(w) == verifImgAt(snap, w), "C02.hist.all-cancelled-is-pristine")
			}
			verifReached("C02.hist.all-cancelled")
		}
	}
	verifReached("C02.hist")
}

// VC_C02_hist3: histories of 3 operations.
func VC_C02_hist3() { vHistory(3) }

// VC_C02_hist4: histories of 4 operations.
func VC_C02_hist4() { vHistory(4) }

// VC_C02_hist5: histories of 5 operations (thorough).
func VC_C02_hist5() {
	// (guards created un-applied are part of the 3- and 4-operation histories only: with
	// them the 5-operation space does not finish within the job budget)
	vLateOK = false
	defer func() { vLateOK = true }()
	vHistory(5)
}
