package mocker

import (
	"reflect"
	"unsafe"

	"github.com/tencent/goom/internal/bytecode/stub"
	"github.com/tencent/goom/internal/hack"
	"github.com/tencent/goom/internal/iface"
)

// C07: interface-variable mocks dispatch each method to its own replacement and restore.
//
// What a call `v.M(args)` on an interface variable does is: load the itab word, load
// Fun[index of M], call that address with the data word as receiver. The harness performs
// exactly that with the x86 micro-semantics on the bytes goom put into stub space.

type vSvc interface {
	Alpha(x int) int
	beta(x int) int
	Gamma(x int) int
	delta(x int) int
}

type vSvc1 interface {
	Only(x int) int
}

var vSvcA, vSvcB vSvc
var vSvcOne vSvc1

var vMethodNames = [4]string{"Alpha", "beta", "Gamma", "delta"}

func vCbAlpha(ctx *IContext, x int) int { return x + 1 }
func vCbBeta(ctx *IContext, x int) int  { return x + 2 }
func vCbGamma(ctx *IContext, x int) int { return x + 3 }
func vCbDelta(ctx *IContext, x int) int { return x + 4 }

var vCbs07 = [4]interface{}{vCbAlpha, vCbBeta, vCbGamma, vCbDelta}

// VC_C07_dispatch: any subset of the four methods mocked in any of three orders, through
// Apply or As+Return: every mocked slot reaches its own replacement with the caller's
// argument, every other slot reaches notImplement; Reset restores the variable.
func VC_C07_dispatch() {
	vEnv()
	stub.VerifResetMmap()
	vSvcA = nil
	t := reflect.TypeOf(&vSvcA).Elem()
	b := Create()
	var mocked [4]bool
	var viaReturn [4]bool
	var retVal [4]int
	order := verifChoice("order", 3)
	for k := 0; k < 4; k++ {
		i := k
		if order == 1 {
			i = 3 - k
		} else if order == 2 {
			i = (k + 2) % 4
		}
		if !verifBool(vMethodNames[i] + ".mocked") {
			continue
		}
		mocked[i] = true
		if verifBool(vMethodNames[i] + ".viaReturn") {
			viaReturn[i] = true
			retVal[i] = verifInt(vMethodNames[i] + ".ret")
			b.Interface(&vSvcA).Method(vMethodNames[i]).As(vCbs07[i]).Return(retVal[i])
		} else {
			b.Interface(&vSvcA).Method(vMethodNames[i]).Apply(vCbs07[i])
		}
	}
	any := mocked[0] || mocked[1] || mocked[2] || mocked[3]
	if !any {
		verifAssert(vSvcA == nil, "C07.dispatch.untouched-without-mocks")
		return
	}
	verifAssert(vSvcA != nil, "C07.dispatch.variable-non-nil")
	x := verifInt("x")
	for i := 0; i < 4; i++ {
		j := vSlotOf(t, vMethodNames[i])
		f, recv, notImpl := vDispatch(unsafe.Pointer(&vSvcA), j, "C07.dispatch")
		if !mocked[i] {
			verifAssert(notImpl, "C07.dispatch.unmocked-slot-is-notImplement")
			continue
		}
		verifAssert(!notImpl && f != nil, "C07.dispatch.mocked-slot-has-stub")
		if notImpl || f == nil {
			continue
		}
		r, p := vCall07(f, recv, x)
		verifAssert(!p, "C07.dispatch.replacement-no-panic")
		if viaReturn[i] {
			verifAssert(r == retVal[i], "C07.dispatch.stubbed-return-delivered")
		} else {
			verifAssert(r == x+i+1, "C07.dispatch.own-replacement-with-callers-argument")
		}
	}
	// every slot beyond the interface's own methods also points at notImplement
	hi := (*hack.Iface)(unsafe.Pointer(&vSvcA))
	verifAssert(hi.Tab.Fun[4] == iface.VerifNotImplementPC(), "C07.dispatch.spare-slots-notImplement")
	b.Reset()
	verifAssert(vSvcA == nil, "C07.dispatch.reset-restores-previous-value")
	verifReached("C07.dispatch")
}

type vImpl struct{ n int }

func (v *vImpl) Alpha(x int) int { return v.n }
func (v *vImpl) beta(x int) int  { return v.n }
func (v *vImpl) Gamma(x int) int { return v.n }
func (v *vImpl) delta(x int) int { return v.n }

// VC_C07_restore_non_nil: a variable that held a real implementation gets it back.
func VC_C07_restore_non_nil() {
	vEnv()
	stub.VerifResetMmap()
	impl := &vImpl{n: 9}
	vSvcA = impl
	b := Create()
	b.Interface(&vSvcA).Method("Gamma").Apply(vCbGamma)
	verifAssert(vSvcA != nil, "C07.restore.mocked-non-nil")
	b.Reset()
	got, ok := vSvcA.(*vImpl)
	verifAssert(ok && got == impl, "C07.restore.previous-implementation-back")
	verifReached("C07.restore")
}

// VC_C07_two_variables: two variables of the same interface type are mocked
// independently in one builder.
func VC_C07_two_variables() {
	vEnv()
	stub.VerifResetMmap()
	vSvcA, vSvcB = nil, nil
	t := reflect.TypeOf(&vSvcA).Elem()
	b := Create()
	b.Interface(&vSvcA).Method("Alpha").Apply(vCbAlpha)
	b.Interface(&vSvcB).Method("Alpha").Apply(vCbGamma)
	verifAssert(vSvcA != nil, "C07.two.first-non-nil")
	verifAssert(vSvcB != nil, "C07.two.second-non-nil")
	if vSvcA == nil || vSvcB == nil {
		return
	}
	j := vSlotOf(t, "Alpha")
	x := verifInt("x")
	fa, ra, na := vDispatch(unsafe.Pointer(&vSvcA), j, "C07.two")
	fb, rb, nb := vDispatch(unsafe.Pointer(&vSvcB), j, "C07.two")
	verifAssert(!na && !nb && fa != nil && fb != nil, "C07.two.both-have-stubs")
	if na || nb || fa == nil || fb == nil {
		return
	}
	r1, _ := vCall07(fa, ra, x)
	r2, _ := vCall07(fb, rb, x)
	verifAssert(r1 == x+1, "C07.two.first-keeps-its-replacement")
	verifAssert(r2 == x+3, "C07.two.second-gets-its-replacement")
	b.Reset()
	verifAssert(vSvcA == nil && vSvcB == nil, "C07.two.reset-restores-both")
	verifReached("C07.two")
}

// VC_C07_retention: everything the stub code points at stays reachable from the variable
// alone (the builder and mockers may be dropped and garbage-collected).
func VC_C07_retention() {
	vEnv()
	stub.VerifResetMmap()
	vSvcA = nil
	t := reflect.TypeOf(&vSvcA).Elem()
	cb1 := func(ctx *IContext, x int) int { return x + 10 }
	cb2 := func(ctx *IContext, x int) int { return x + 20 }
	func() {
		b := Create()
		b.Interface(&vSvcA).Method("Alpha").Apply(cb1)
		b.Interface(&vSvcA).Method("Gamma").As(cb2).Return(5)
		b.Interface(&vSvcA).Method("beta").As(cb2).Return(6)
	}()
	for _, name := range []string{"Alpha", "Gamma", "beta"} {
		f, _, notImpl := vDispatch(unsafe.Pointer(&vSvcA), vSlotOf(t, name), "C07.retention")
		verifAssert(!notImpl && f != nil, "C07.retention.has-stub")
		if f != nil {
			verifAssert(verifReachable(&vSvcA, f), "C07.retention.stub-target-reachable-from-variable")
		}
	}
	verifReached("C07.retention")
}

// VC_C07_single_method: an interface with one method.
func VC_C07_single_method() {
	vEnv()
	stub.VerifResetMmap()
	vSvcOne = nil
	b := Create()
	b.Interface(&vSvcOne).Method("Only").Apply(func(ctx *IContext, x int) int { return x * 2 })
	f, recv, notImpl := vDispatch(unsafe.Pointer(&vSvcOne), 0, "C07.single")
	verifAssert(!notImpl && f != nil, "C07.single.has-stub")
	if f != nil {
		x := verifInt("x")
		r, p := vCall07(f, recv, x)
		verifAssert(!p && r == x*2, "C07.single.replacement-reached")
	}
	b.Reset()
	verifAssert(vSvcOne == nil, "C07.single.reset-restores")
	verifReached("C07.single")
}

var vRoundN = [5]string{"round0", "round1", "round2", "round3", "round4"}

// vRounds07: maximal number of apply/undo rounds (3 quick; VC_C07x_history sets 5)
var vRounds07 = 3

// VC_C07_history: up to three apply/undo rounds on one variable, each applying either
// through a per-method handle obtained before the first round or through a fresh
// Interface(&v).Method(...) chain, and undoing through Builder.Reset or (for the retained
// handle) its own Cancel: after every apply the slot reaches the replacement, after
// every undo the variable holds exactly what it held before the first mock.
func VC_C07_history() {
	vEnv()
	stub.VerifResetMmap()
	impl := &vImpl{n: 9}
	prevNil := verifBool("prev.nil")
	if prevNil {
		vSvcA = nil
	} else {
		vSvcA = impl
	}
	t := reflect.TypeOf(&vSvcA).Elem()
	j := vSlotOf(t, "Gamma")
	b := Create()
	h := b.Interface(&vSvcA).Method("Gamma")
	x := verifInt("x")
	rounds := 1 + verifChoice("rounds", vRounds07)
	for r := 0; r < rounds; r++ {
		fresh := verifBool(vRoundN[r] + ".fresh")
		if fresh {
			b.Interface(&vSvcA).Method("Gamma").Apply(vCbGamma)
		} else {
			h.Apply(vCbGamma)
		}
		cur, isImpl := vSvcA.(*vImpl)
		verifAssert(vSvcA != nil && !(isImpl && cur == impl), "C07.history.mocked-after-apply")
		if vSvcA == nil || isImpl {
			return
		}
		f, recv, notImpl := vDispatch(unsafe.Pointer(&vSvcA), j, "C07.history")
		verifAssert(!notImpl && f != nil, "C07.history.mocked-slot-has-stub")
		if notImpl || f == nil {
			return
		}
		got, p := vCall07(f, recv, x)
		verifAssert(!p && got == x+3, "C07.history.replacement-reached")
		if !fresh && verifBool(vRoundN[r]+".cancel") {
			h.Cancel()
		} else {
			b.Reset()
		}
		if prevNil {
			verifAssert(vSvcA == nil, "C07.history.undo-restores-nil")
		} else {
			back, ok := vSvcA.(*vImpl)
			verifAssert(ok && back == impl, "C07.history.undo-restores-previous-implementation")
		}
	}
	verifReached("C07.history")
}

// thorough tier: up to five apply/undo rounds
func VC_C07x_history() { vRounds07 = 5; VC_C07_history() }

// an interface that embeds another one and adds methods whose names sort around it
type vSvcEmb interface {
	vSvc1 // Only
	Zeta(x int) int
	alpha(x int) int
}

var vSvcE vSvcEmb

func vCbOnly(ctx *IContext, x int) int  { return x + 11 }
func vCbZeta(ctx *IContext, x int) int  { return x + 12 }
func vCbalpha(ctx *IContext, x int) int { return x + 13 }

// VC_C07_embedded: methods of an interface with an embedded interface (promoted method,
// own exported and unexported methods): any subset mocked, each slot reaches its own
// replacement, the others notImplement.
func VC_C07_embedded() {
	vEnv()
	stub.VerifResetMmap()
	vSvcE = nil
	t := reflect.TypeOf(&vSvcE).Elem()
	names := [3]string{"Only", "Zeta", "alpha"}
	cbs := [3]interface{}{vCbOnly, vCbZeta, vCbalpha}
	b := Create()
	var mocked [3]bool
	any := false
	for i := 0; i < 3; i++ {
		if verifBool(names[i] + ".mocked") {
			mocked[i] = true
			any = true
			b.Interface(&vSvcE).Method(names[i]).Apply(cbs[i])
		}
	}
	if !any {
		verifAssert(vSvcE == nil, "C07.embedded.untouched-without-mocks")
		return
	}
	verifAssert(vSvcE != nil, "C07.embedded.variable-non-nil")
	if vSvcE == nil {
		return
	}
	x := verifInt("x")
	for i := 0; i < 3; i++ {
		j := vSlotOf(t, names[i])
		verifAssert(j >= 0, "C07.embedded.method-in-table")
		f, recv, notImpl := vDispatch(unsafe.Pointer(&vSvcE), j, "C07.embedded")
		if !mocked[i] {
			verifAssert(notImpl, "C07.embedded.unmocked-slot-is-notImplement")
			continue
		}
		verifAssert(!notImpl && f != nil, "C07.embedded.mocked-slot-has-stub")
		if notImpl || f == nil {
			continue
		}
		r, p := vCall07(f, recv, x)
		verifAssert(!p && r == x+11+i, "C07.embedded.own-replacement-with-callers-argument")
	}
	b.Reset()
	verifAssert(vSvcE == nil, "C07.embedded.reset-restores-previous-value")
	verifReached("C07.embedded")
}


var vOpN07 = [5]string{"op0", "op1", "op2", "op3", "op4"}

// vOps07: number of operations of VC_C07_two_method_history (4 quick; the thorough
// wrapper sets 5)
var vOps07 = 4

// VC_C07_two_method_history: histories of operations {apply Alpha, apply Gamma, undo} on
// one variable through handles obtained before the first operation (the variable's
// interface mocker and one per-method mocker each) or through fresh chains (one family
// per epoch); undo is
// Builder.Reset or the retained interface mocker's Cancel. After every operation each of
// the two methods reaches its replacement if it was applied since the last undo and
// notImplement otherwise; with nothing applied the variable holds its previous value.
func VC_C07_two_method_history() {
	vEnv()
	stub.VerifResetMmap()
	vSvcA = nil
	t := reflect.TypeOf(&vSvcA).Elem()
	slot := [2]int{vSlotOf(t, "Alpha"), vSlotOf(t, "Gamma")}
	names := [2]string{"Alpha", "Gamma"}
	cbs := [2]interface{}{vCbAlpha, vCbGamma}
	add := [2]int{1, 3}
	b := Create()
	im := b.Interface(&vSvcA)
	hs := [2]InterfaceMocker{im.Method("Alpha"), im.Method("Gamma")}
	var live [2]bool
	epochVia := -1
	x := verifInt("x")
	for k := 0; k < vOps07; k++ {
		op := verifChoice(vOpN07[k], 3)
		if op < 2 {
			// one family of handles per epoch (between two undos): mixing a handle from
			// before a Reset with a fresh post-Reset lookup is two configurations of one
			// variable, which the property does not order
			if epochVia < 0 {
				epochVia = verifChoice(vOpN07[k]+".via", 2)
			}
			if epochVia == 0 {
				hs[op].Apply(cbs[op])
			} else {
				b.Interface(&vSvcA).Method(names[op]).Apply(cbs[op])
			}
			live[op] = true
		} else {
			// undo through the builder, or through the interface mocker of the family of
			// handles this epoch used
			if verifBool(vOpN07[k] + ".cancel") {
				if epochVia == 1 {
					b.Interface(&vSvcA).Cancel()
				} else {
					im.Cancel()
				}
			} else {
				b.Reset()
			}
			live = [2]bool{}
			epochVia = -1
		}
		if !live[0] && !live[1] {
			verifAssert(vSvcA == nil, "C07.two-method.undo-restores-previous-value")
			continue
		}
		verifAssert(vSvcA != nil, "C07.two-method.variable-non-nil")
		if vSvcA == nil {
			return
		}
		for m := 0; m < 2; m++ {
			f, recv, notImpl := vDispatch(unsafe.Pointer(&vSvcA), slot[m], "C07.two-method")
			if !live[m] {
				verifAssert(notImpl, "C07.two-method.method-not-applied-since-undo-is-notImplement")
				continue
			}
			verifAssert(!notImpl && f != nil, "C07.two-method.applied-method-has-stub")
			if notImpl || f == nil {
				continue
			}
			got, p := vCall07(f, recv, x)
			verifAssert(!p && got == x+add[m], "C07.two-method.applied-method-reaches-own-replacement")
		}
	}
	verifReached("C07.two-method")
}

func VC_C07x_two_method_history() { vOps07 = 5; VC_C07_two_method_history() }

// VC_C07_overwritten_between: after one method was mocked the program overwrites the
// variable (nil or a real implementation) without a Reset, then a further method is
// mocked in the same builder: the variable holds the mock again and both methods reach
// their replacements.
func VC_C07_overwritten_between() {
	vEnv()
	stub.VerifResetMmap()
	vSvcA = nil
	t := reflect.TypeOf(&vSvcA).Elem()
	b := Create()
	im := b.Interface(&vSvcA)
	im.Method("Alpha").Apply(vCbAlpha)
	if verifBool("overwriteWithImpl") {
		vSvcA = &vImpl{n: 9}
	} else {
		vSvcA = nil
	}
	second := verifChoice("second", 2) // mock another method, or the same one again
	name, cb := "Gamma", interface{}(vCbGamma)
	if second == 1 {
		name, cb = "Alpha", interface{}(vCbAlpha)
	}
	if verifBool("retained") {
		im.Method(name).Apply(cb)
	} else {
		b.Interface(&vSvcA).Method(name).Apply(cb)
	}
	_, isImpl := vSvcA.(*vImpl)
	verifAssert(vSvcA != nil && !isImpl, "C07.overwritten.variable-holds-the-mock-again")
	if vSvcA == nil || isImpl {
		return
	}
	x := verifInt("x")
	f, recv, notImpl := vDispatch(unsafe.Pointer(&vSvcA), vSlotOf(t, "Alpha"), "C07.overwritten")
	verifAssert(!notImpl && f != nil, "C07.overwritten.first-method-still-mocked")
	if !notImpl && f != nil {
		got, p := vCall07(f, recv, x)
		verifAssert(!p && got == x+1, "C07.overwritten.first-method-reaches-replacement")
	}
	if second == 0 {
		f2, recv2, notImpl2 := vDispatch(unsafe.Pointer(&vSvcA), vSlotOf(t, "Gamma"), "C07.overwritten")
		verifAssert(!notImpl2 && f2 != nil, "C07.overwritten.second-method-mocked")
		if !notImpl2 && f2 != nil {
			got, p := vCall07(f2, recv2, x)
			verifAssert(!p && got == x+3, "C07.overwritten.second-method-reaches-replacement")
		}
	}
	verifReached("C07.overwritten")
}

// an interface variable of an unnamed interface type with an unexported method
var vSvcAnon interface {
	Alpha(x int) int
	gamma(x int) int
}

// VC_C07_anonymous_interface: mocking the unexported (or the exported) method of a
// variable whose interface type has no name: the mocked method's own slot gets the stub,
// the other one stays notImplement.
func VC_C07_anonymous_interface() {
	vEnv()
	stub.VerifResetMmap()
	vSvcAnon = nil
	t := reflect.TypeOf(&vSvcAnon).Elem()
	names := [2]string{"Alpha", "gamma"}
	cbs := [2]interface{}{vCbAlpha, vCbGamma}
	add := [2]int{1, 3}
	k := verifChoice("method", 2)
	b := Create()
	b.Interface(&vSvcAnon).Method(names[k]).Apply(cbs[k])
	verifAssert(vSvcAnon != nil, "C07.anonymous.variable-non-nil")
	if vSvcAnon == nil {
		return
	}
	x := verifInt("x")
	for m := 0; m < 2; m++ {
		f, recv, notImpl := vDispatch(unsafe.Pointer(&vSvcAnon), vSlotOf(t, names[m]), "C07.anonymous")
		if m != k {
			verifAssert(notImpl, "C07.anonymous.unmocked-slot-is-notImplement")
			continue
		}
		verifAssert(!notImpl && f != nil, "C07.anonymous.mocked-slot-has-stub")
		if notImpl || f == nil {
			continue
		}
		got, p := vCall07(f, recv, x)
		verifAssert(!p && got == x+add[m], "C07.anonymous.own-replacement-with-callers-argument")
	}
	b.Reset()
	verifAssert(vSvcAnon == nil, "C07.anonymous.reset-restores-previous-value")
	verifReached("C07.anonymous")
}

// VC_C07_reassigned_between_rounds: two mock rounds on one variable through one builder
// with the variable assigned by the program in between (a real implementation, or nil):
// the second round dispatches to its replacement, and its Reset puts back the value the
// variable held right before the second round - not the one from before the first.
func VC_C07_reassigned_between_rounds() {
	vEnv()
	stub.VerifResetMmap()
	implA, implB := &vImpl{n: 7}, &vImpl{n: 9}
	vals := [3]vSvc{nil, implA, implB}
	first, between := vals[verifChoice("first", 3)], vals[verifChoice("between", 3)]
	vSvcA = first
	t := reflect.TypeOf(&vSvcA).Elem()
	b := Create()
	b.Interface(&vSvcA).Method("Alpha").Apply(vCbAlpha)
	if verifBool("cancelOnly") {
		b.Interface(&vSvcA).Cancel()
	} else {
		b.Reset()
	}
	verifAssert(vSvcA == first, "C07.rounds.first-round-restores")
	vSvcA = between
	second := verifChoice("second", 2)
	name, cb, add := "Alpha", interface{}(vCbAlpha), 1
	if second == 1 {
		name, cb, add = "Gamma", interface{}(vCbGamma), 3
	}
	if verifBool("viaReturn") {
		b.Interface(&vSvcA).Method(name).As(cb).Return(41)
		add = -1
	} else {
		b.Interface(&vSvcA).Method(name).Apply(cb)
	}
	_, isImpl := vSvcA.(*vImpl)
	verifAssert(vSvcA != nil && !isImpl, "C07.rounds.variable-holds-the-second-mock")
	if vSvcA != nil && !isImpl {
		x := verifInt("x")
		f, recv, notImpl := vDispatch(unsafe.Pointer(&vSvcA), vSlotOf(t, name), "C07.rounds")
		verifAssert(!notImpl && f != nil, "C07.rounds.second-round-method-mocked")
		if !notImpl && f != nil {
			got, p := vCall07(f, recv, x)
			if add < 0 {
				verifAssert(!p && got == 41, "C07.rounds.second-round-stub-delivered")
			} else {
				verifAssert(!p && got == x+add, "C07.rounds.second-round-reaches-replacement")
			}
		}
	}
	b.Reset()
	verifAssert(vSvcA == between, "C07.rounds.second-reset-restores-the-value-before-the-second-round")
	verifReached("C07.rounds")
}

func vCbAlphaShort(ctx *IContext) int { return 0 } // lacks the method's parameter

// VC_C07_retry_after_rejected: an ill-formed stub of a method (an As function that lacks
// the method's parameter; the panic is recovered) followed by the correct one on the same
// variable and builder: the variable holds the mock, the method reaches its stub; other
// methods are notImplement; Reset restores.
func VC_C07_retry_after_rejected() {
	vEnv()
	stub.VerifResetMmap()
	vSvcA = nil
	t := reflect.TypeOf(&vSvcA).Elem()
	b := Create()
	if verifBool("otherMethodFirst") {
		b.Interface(&vSvcA).Method("Gamma").Apply(vCbGamma)
	}
	rejected := false
	func() {
		defer func() {
			if r := recover(); r != nil {
				rejected = true
			}
		}()
		switch verifChoice("badForm", 3) {
		case 0:
			b.Interface(&vSvcA).Method("Alpha").As(vCbAlphaShort).Return(1)
		case 1:
			b.Interface(&vSvcA).Method("Alpha").As(vCbAlphaShort).When(1).Return(1)
		default:
			b.Interface(&vSvcA).Method("Alpha").As(vCbAlphaShort).Returns(1, 2)
		}
	}()
	verifAssert(rejected, "C07.retry.ill-formed-stub-rejected")
	r := verifInt("r")
	switch verifChoice("goodForm", 2) {
	case 0:
		b.Interface(&vSvcA).Method("Alpha").As(vCbAlpha).Return(r)
	default:
		b.Interface(&vSvcA).Method("Alpha").Apply(func(ctx *IContext, x int) int { return r })
	}
	verifAssert(vSvcA != nil, "C07.retry.variable-holds-the-mock")
	if vSvcA != nil {
		f, recv, notImpl := vDispatch(unsafe.Pointer(&vSvcA), vSlotOf(t, "Alpha"), "C07.retry")
		verifAssert(!notImpl && f != nil, "C07.retry.method-mocked")
		if !notImpl && f != nil {
			got, p := vCall07(f, recv, verifInt("x"))
			verifAssert(!p && got == r, "C07.retry.correct-stub-delivered")
		}
	}
	b.Reset()
	verifAssert(vSvcA == nil, "C07.retry.reset-restores")
	verifReached("C07.retry")
}

// VC_C07_retained_method_handle: the per-method handle Interface(&v).Method(m).As(f) is
// kept across a Cancel of that handle (or a Reset of the builder) and stubbed again: the
// method reaches the new stub (its rows, its conditions), not the As placeholder.
func VC_C07_retained_method_handle() {
	vEnv()
	stub.VerifResetMmap()
	vSvcA = nil
	t := reflect.TypeOf(&vSvcA).Elem()
	b := Create()
	h := b.Interface(&vSvcA).Method("Alpha").As(vCbAlpha)
	r1, r2, c := verifInt("r1"), verifInt("r2"), verifInt("c")
	h.Return(r1)
	if verifBool("resetBuilder") {
		b.Reset()
	} else {
		h.Cancel()
	}
	verifAssert(vSvcA == nil, "C07.retained-handle.undone-in-between")
	conditional := verifBool("conditional")
	if conditional {
		h.When(c).Return(r2)
	} else {
		h.Return(r2)
	}
	verifAssert(vSvcA != nil, "C07.retained-handle.variable-holds-the-mock-again")
	if vSvcA != nil {
		f, recv, notImpl := vDispatch(unsafe.Pointer(&vSvcA), vSlotOf(t, "Alpha"), "C07.retained-handle")
		verifAssert(!notImpl && f != nil, "C07.retained-handle.method-mocked")
		if !notImpl && f != nil {
			got, p := vCall07(f, recv, c)
			verifAssert(!p && got == r2, "C07.retained-handle.new-stub-delivered")
		}
	}
	b.Reset()
	verifAssert(vSvcA == nil, "C07.retained-handle.reset-restores")
	verifReached("C07.retained-handle")
}

// VC_C07_returns_then_condition: an interface-method stub started with As(f).Returns(...)
// and continued with a condition on the caller's argument (When(c).Return(r)): the
// condition is matched against the caller's arguments (the context is not an argument),
// other calls get the sequence.
func VC_C07_returns_then_condition() {
	vEnv()
	stub.VerifResetMmap()
	vSvcA = nil
	t := reflect.TypeOf(&vSvcA).Elem()
	b := Create()
	r0, r1, r2, c := verifInt("r0"), verifInt("r1"), verifInt("r2"), verifInt("c")
	panicked := false
	func() {
		defer func() {
			if r := recover(); r != nil {
				panicked = true
			}
		}()
		b.Interface(&vSvcA).Method("Alpha").As(vCbAlpha).Returns(r0, r1).When(c).Return(r2)
	}()
	verifAssert(!panicked, "C07.returns-then-condition.accepted")
	verifAssert(vSvcA != nil, "C07.returns-then-condition.variable-holds-the-mock")
	if vSvcA != nil && !panicked {
		f, recv, notImpl := vDispatch(unsafe.Pointer(&vSvcA), vSlotOf(t, "Alpha"), "C07.returns-then-condition")
		verifAssert(!notImpl && f != nil, "C07.returns-then-condition.method-mocked")
		if !notImpl && f != nil {
			got, p := vCall07(f, recv, c)
			verifAssert(!p && got == r2, "C07.returns-then-condition.condition-on-the-callers-argument")
			g1, p1 := vCall07(f, recv, c+1)
			g2, p2 := vCall07(f, recv, c+1)
			verifAssert(!p1 && !p2 && g1 == r0 && g2 == r1, "C07.returns-then-condition.other-calls-get-the-sequence")
		}
	}
	b.Reset()
	verifAssert(vSvcA == nil, "C07.returns-then-condition.reset-restores")
	verifReached("C07.returns-then-condition")
}
