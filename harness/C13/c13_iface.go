package mocker

import (
	"reflect"
	"unsafe"

	"github.com/tencent/goom/internal/bytecode/stub"
	"github.com/tencent/goom/internal/iface"
)

// C13 for interface mocks, in the environment in which a well-formed interface mock
// succeeds (stub space, symbol of reflect.makeFuncStub): ill-formed ones are rejected by
// goom's own validation and leave the variable untouched.

type vC13J interface {
	Get(i int) int
	put(i int)
}

var vC13JV vC13J

func vRejectedI(f func(), id string) {
	mark := verifImgBytesWritten()
	panicked := false
	func() {
		defer func() {
			if r := recover(); r != nil {
				panicked = true
			}
		}()
		f()
	}()
	verifAssert(panicked, id+".rejected")
	verifAssert(vC13JV == nil, id+".variable-untouched")
	_ = mark
}

// VC_C13_interface_mistakes: a callback / As function whose first parameter is not the
// context, or that lacks (or has too many of) the method's parameters - through Apply,
// As+Return, As+When, As+Returns; unknown method; each is rejected and the (nil) variable
// stays nil. Control: the well-formed variants are accepted.
func VC_C13_interface_mistakes() {
	vEnv()
	stub.VerifResetMmap()
	vC13JV = nil
	b := Create()
	short := func(ctx *IContext) int { return 0 }
	long := func(ctx *IContext, i, j int) int { return 0 }
	noctx := func(i int) int { return 0 }
	good := func(ctx *IContext, i int) int { return 0 }
	fns := [4]interface{}{short, long, noctx, good}
	k := verifChoice("shape", 4)
	api := verifChoice("api", 4)
	attempt := func() {
		switch api {
		case 0:
			b.Interface(&vC13JV).Method("Get").Apply(fns[k])
		case 1:
			b.Interface(&vC13JV).Method("Get").As(fns[k]).Return(1)
		case 2:
			b.Interface(&vC13JV).Method("Get").As(fns[k]).When(1).Return(1)
		default:
			b.Interface(&vC13JV).Method("Get").As(fns[k]).Returns(1, 2)
		}
	}
	if k == 3 {
		// control: the well-formed configuration is accepted and installs the mock
		panicked := false
		func() {
			defer func() {
				if r := recover(); r != nil {
					panicked = true
				}
			}()
			attempt()
		}()
		verifAssert(!panicked && vC13JV != nil, "C13.iface-mistakes.well-formed-accepted")
		b.Reset()
		verifAssert(vC13JV == nil, "C13.iface-mistakes.reset-restores")
		verifReached("C13.iface-mistakes.control")
		return
	}
	vRejectedI(attempt, "C13.iface-mistakes")
	b.Reset()
	verifAssert(vC13JV == nil, "C13.iface-mistakes.reset-leaves-untouched")
	verifReached("C13.iface-mistakes")
}

// VC_C13_held_interface_mocker: a DefaultInterfaceMocker object held by the caller: after
// a rejected Method(<unknown name>) (the panic recovered) it has no usable method: an
// Apply / As().Return on that same object is rejected too and the variable stays nil - it
// does not fall onto another method of the interface.
func VC_C13_held_interface_mocker() {
	vEnv()
	stub.VerifResetMmap()
	vC13JV = nil
	m := NewDefaultInterfaceMocker("github.com/tencent/goom", &vC13JV, iface.NewContext())
	validFirst := verifBool("validFirst")
	if validFirst {
		m.Method("Get")
	}
	rejected := false
	func() {
		defer func() {
			if r := recover(); r != nil {
				rejected = true
			}
		}()
		m.Method("Nope")
	}()
	verifAssert(rejected, "C13.held.unknown-method-rejected")
	good := func(ctx *IContext, i int) int { return 100 }
	viaReturn := verifBool("viaReturn")
	attempt := func() {
		if viaReturn {
			m.As(good).Return(1)
		} else {
			m.Apply(good)
		}
	}
	if !validFirst {
		vRejectedI(attempt, "C13.held.configuration-after-rejected-method")
	} else {
		// the method selected before the rejected call is still the selected one
		attempt()
		verifAssert(vC13JV != nil, "C13.held.earlier-valid-selection-kept")
		if vC13JV != nil {
			t := reflect.TypeOf(&vC13JV).Elem()
			_, _, notImplGet := vDispatch(unsafe.Pointer(&vC13JV), vSlotOf(t, "Get"), "C13.held")
			_, _, notImplPut := vDispatch(unsafe.Pointer(&vC13JV), vSlotOf(t, "put"), "C13.held")
			verifAssert(!notImplGet && notImplPut, "C13.held.exactly-the-selected-method-mocked")
		}
		m.Cancel()
	}
	verifReached("C13.held")
}
