package patch

import "reflect"

// C13 (patch layer): SignatureEquals rejects every count or size mismatch; a rejected
// patch leaves the image and the patch table unchanged.

func vSigPanics(a, b interface{}) (panicked bool) {
	defer func() {
		if r := recover(); r != nil {
			panicked = true
		}
	}()
	SignatureEquals(reflect.TypeOf(a), reflect.TypeOf(b))
	return false
}

type vBig struct{ A, B int }

func VC_C13_signature() {
	type pair struct{ a, b interface{} }
	same := []pair{
		{func(int, string) error { return nil }, func(int, string) error { return nil }},
		{func(int) int { return 0 }, func(uint) int64 { return 0 }}, // same sizes
		{func(*int) {}, func(*string) {}},
		{func(vBig) {}, func([2]int) {}},
	}
	diff := []pair{
		{func(int) {}, func() {}},
		{func() int { return 0 }, func() {}},
		{func(int) {}, func(int8) {}},
		{func(int, string) {}, func(int, int) {}},
		{func() int { return 0 }, func() int32 { return 0 }},
		{func() (int, error) { return 0, nil }, func() (int, int) { return 0, 0 }},
		{func(vBig) {}, func(int) {}},
		{func(...int) {}, func(int) {}},
	}
	if verifBool("equal") {
		c := same[verifChoice("i", len(same))]
		verifAssert(!vSigPanics(c.a, c.b), "C13.signature.accepts-equal-layout")
	} else {
		c := diff[verifChoice("i", len(diff))]
		verifAssert(vSigPanics(c.a, c.b), "C13.signature.rejects-mismatch")
		verifAssert(vSigPanics(c.b, c.a), "C13.signature.rejects-mismatch-swapped")
	}
	verifReached("C13.signature")
}

func vTgt(a int, s string) int { return a }

// VC_C13_patch_rejects: a rejected Patch/Trampoline writes nothing and registers nothing.
func VC_C13_patch_rejects() {
	vReset()
	mark := verifImgBytesWritten()
	var err error
	panicked := false
	func() {
		defer func() {
			if r := recover(); r != nil {
				panicked = true
			}
		}()
		switch verifChoice("case", 4) {
		case 0:
			_, err = Patch(vTgt, func(a int) int { return 0 })
		case 1:
			_, err = Patch(42, func() {})
		case 2:
			_, err = Patch(vTgt, 42)
		case 3:
			_, err = InstanceMethod(reflect.TypeOf(&vBig{}), "Nope", func() {})
		}
	}()
	verifAssert(panicked || err != nil, "C13.patch.rejected")
	verifAssert(verifImgBytesWritten() == mark, "C13.patch.image-unchanged")
	verifAssert(len(patches) == 0, "C13.patch.nothing-registered")
	verifReached("C13.patch")
}

// VC_C13_already_patched: a target whose entry already looks patched (sentinel) is
// refused with an error that unwraps to errAlreadyPatch and nothing is written.
func VC_C13_already_patched() {
	vReset()
	t := vNewTarget()
	verifAssume(t.size >= 14)
	verifAssume(verifImgLoad(t.addr) == 0x90)
	_, err := PtrTrampoline(t.addr, vReplA, nil)
	verifAssert(err != nil, "C13.sentinel.refused")
	verifAssert(verifImgBytesWritten() == 0, "C13.sentinel.image-unchanged")
	verifReached("C13.sentinel")
}
