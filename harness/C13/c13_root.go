package mocker

import (
	"errors"

	"github.com/tencent/goom/arg"
	"github.com/tencent/goom/erro"
)

// C13: configuration mistakes are rejected up front and leave nothing patched.

func vC13F(a int, s string) (int, error) { return a, nil }
func vC13G(p *vC13Big) vC13Big          { return *p }

type vC13Big struct{ A, B, C int }
type vC13Small struct{ A int }
type vC13T struct{ n int }

func (t *vC13T) Get(i int) int { return t.n + i }

type vC13I interface {
	Get(i int) int
	put(i int)
}

type vC13Impl struct{ n int }

func (t *vC13Impl) Get(i int) int { return t.n + i }
func (t *vC13Impl) put(i int)     {}

// vRejected runs one configuration attempt; it must end in a panic (or error reported as
// panic by the API) and must not have written a single byte of the image.
func vRejected(f func(), id string) {
	mark := verifImgBytesWritten()
	panicked := false
	func() {
		defer func() {
			if r := recover(); r != nil {
				panicked = true
			}
		}()
		f()
	}()
	verifAssert(panicked, id+".rejected")
	verifAssert(verifImgBytesWritten() == mark, id+".image-unchanged")
	verifAssert(!vDiverted(vC13F) && !vDiverted(vC13G), id+".targets-not-mocked")
}

func VC_C13_func_mistakes() {
	vEnv()
	vPristine(vC13F)
	vPristine(vC13G)
	verifApart(verifFuncCode(vC13F), verifFuncCode(vC13G), 32)
	b := Create()
	switch verifChoice("case", 12) {
	case 0: // callback with too few parameters
		vRejected(func() { b.Func(vC13F).Apply(func(a int) (int, error) { return 0, nil }) }, "C13.func.cb-too-few-params")
	case 1: // callback with too many parameters
		vRejected(func() { b.Func(vC13F).Apply(func(a int, s string, x int) (int, error) { return 0, nil }) }, "C13.func.cb-too-many-params")
	case 2: // callback with a different number of results
		vRejected(func() { b.Func(vC13F).Apply(func(a int, s string) int { return 0 }) }, "C13.func.cb-result-count")
	case 3: // callback whose parameter size differs
		vRejected(func() { b.Func(vC13F).Apply(func(a int8, s string) (int, error) { return 0, nil }) }, "C13.func.cb-param-size")
	case 4: // callback whose result size differs
		vRejected(func() { b.Func(vC13F).Apply(func(a int, s string) (int32, error) { return 0, nil }) }, "C13.func.cb-result-size")
	case 5: // too few return values
		vRejected(func() { b.Func(vC13F).Return(1) }, "C13.func.too-few-returns")
	case 6: // too few condition arguments
		vRejected(func() { b.Func(vC13F).When(1).Return(1, nil) }, "C13.func.too-few-condition-args")
	case 7: // return value whose size does not fit the result type (scalar)
		vRejected(func() { b.Func(vC13F).Return(int8(1), nil) }, "C13.func.return-size-scalar")
	case 8: // return value whose size does not fit a struct result
		vRejected(func() { b.Func(vC13G).Return(vC13Small{1}) }, "C13.func.return-size-struct")
	case 9: // condition argument whose size does not fit a pointer parameter
		vRejected(func() { b.Func(vC13G).When(vC13Big{1, 2, 3}).Return(vC13Big{}) }, "C13.func.condition-size")
	case 10: // a non-function target
		vRejected(func() { b.Func(42).Apply(func() {}) }, "C13.func.non-function-target")
	case 11: // a non-function callback
		vRejected(func() { b.Func(vC13F).Apply(42) }, "C13.func.non-function-callback")
	}
	verifReached("C13.func")
}

func VC_C13_method_and_interface_mistakes() {
	vEnv()
	vPristine(vC13F)
	vPristine(vC13G)
	b := Create()
	var iv vC13I
	vMapI := map[string]vC13I{"k": &vC13Impl{n: 1}}
	vSliceI := []vC13I{&vC13Impl{n: 2}}
	switch verifChoice("case", 12) {
	case 9: // a stub whose As function lacks the method's parameter (after the context)
		vRejected(func() { b.Interface(&iv).Method("Get").As(func(ctx *IContext) int { return 0 }).Return(1) }, "C13.iface.as-too-few-params.return")
	case 10:
		vRejected(func() { b.Interface(&iv).Method("Get").As(func(ctx *IContext) int { return 0 }).When(1).Return(1) }, "C13.iface.as-too-few-params.when")
	case 11:
		vRejected(func() { b.Interface(&iv).Method("Get").As(func(ctx *IContext) int { return 0 }).Returns(1, 2) }, "C13.iface.as-too-few-params.returns")
	case 6: // a map of interface values is not a pointer to an interface variable
		vRejected(func() { b.Interface(vMapI).Method("Get").Apply(func(ctx *IContext, i int) int { return 0 }) }, "C13.iface.map-of-interface")
		verifAssert(len(vMapI) == 1 && vMapI["k"].Get(1) == 2, "C13.iface.container-untouched")
	case 7: // nor is a slice of them
		vRejected(func() { b.Interface(vSliceI).Method("Get").Apply(func(ctx *IContext, i int) int { return 0 }) }, "C13.iface.slice-of-interface")
		verifAssert(len(vSliceI) == 1 && vSliceI[0].Get(1) == 3, "C13.iface.container-untouched")
	case 8: // nor an interface value itself
		var held vC13I = &vC13Impl{n: 3}
		vRejected(func() { b.Interface(held).Method("Get").Apply(func(ctx *IContext, i int) int { return 0 }) }, "C13.iface.interface-value")
		verifAssert(held.Get(1) == 4, "C13.iface.container-untouched")
	case 0:
		vRejected(func() { b.Struct(&vC13T{}).Method("Nope").Apply(func(t *vC13T, i int) int { return 0 }) }, "C13.method.unknown-method")
	case 1:
		vRejected(func() { b.Struct(&vC13T{}).Method("").Return(1) }, "C13.method.empty-name")
	case 2:
		vRejected(func() { b.Interface(&iv).Method("Nope") }, "C13.iface.unknown-method")
	case 3:
		vRejected(func() { b.Interface(5).Method("Get") }, "C13.iface.non-pointer")
	case 4:
		x := 5
		vRejected(func() { b.Interface(&x).Method("Get") }, "C13.iface.pointer-to-non-interface")
	case 5: // callback whose first parameter is not *IContext
		vRejected(func() { b.Interface(&iv).Method("Get").Apply(func(i int) int { return 0 }) }, "C13.iface.first-arg-not-context")
	}
	verifAssert(iv == nil, "C13.iface.variable-untouched")
	verifReached("C13.method-iface")
}

// the symbol lookup itself is the subject of C10: here every name is absent
//
//verif:stub github.com/tencent/goom/internal/unexports2.FindFuncByName
func vC13FindFuncByName(name string) (uintptr, error) {
	return 0, erro.NewFuncNotFoundError(name)
}

//verif:stub github.com/tencent/goom/internal/unexports2.FindVarByName
func vC13FindVarByName(name string) (uintptr, error) {
	return 0, errors.New(name + ": variable symbol not found")
}

// VC_C13_unknown_names: unknown function, method and variable symbol names are rejected
// by a panic at configuration time and nothing is written.
func VC_C13_unknown_names() {
	vEnv()
	vPristine(vC13F)
	vPristine(vC13G)
	b := Create()
	cb := func(a int, s string) (int, error) { return 0, nil }
	switch verifChoice("case", 6) {
	case 0:
		vRejected(func() { b.ExportFunc("noSuchFunc").Apply(cb) }, "C13.names.unknown-func")
	case 1:
		vRejected(func() { b.Pkg("no/such/pkg").ExportFunc("f").Apply(cb) }, "C13.names.unknown-package")
	case 2:
		vRejected(func() { b.ExportFunc("noSuchFunc").As(cb).Return(1, nil) }, "C13.names.unknown-func-as")
	case 3:
		vRejected(func() { b.ExportStruct("*noSuchType").Method("m").Apply(func(t *vC13T, i int) int { return 0 }) }, "C13.names.unknown-struct-method")
	case 4:
		vRejected(func() { b.Struct(&vC13T{}).ExportMethod("noSuchMethod").Apply(func(t *vC13T, i int) int { return 0 }) }, "C13.names.unknown-unexported-method")
	case 5:
		vRejected(func() { b.UnExportedVar("no/such/pkg.v").Set(1) }, "C13.names.unknown-variable")
	}
	verifReached("C13.names")
}

// VC_C13_cause_chain: errors carry a cause chain that can be walked to the typed cause.
func VC_C13_cause_chain() {
	root := erro.NewArgsNotMatchError(vC13F, 1, 2)
	n := verifChoice("depth", 4)
	var err error = root
	var mid erro.Traceable
	for i := 0; i < n; i++ {
		err = erro.NewTraceableErrorc("wrapped", err)
		if i == 0 {
			mid = err.(erro.Traceable)
		}
	}
	// walking Cause() n times reaches the typed cause itself
	c := err
	for i := 0; i < n; i++ {
		c = erro.Cause(c)
	}
	_, typed := c.(*erro.ArgsNotMatch)
	verifAssert(c == root && typed, "C13.cause.walkable-to-typed-cause")
	verifAssert(erro.Cause(root) == nil, "C13.cause.chain-ends-at-cause")
	if n > 0 {
		verifAssert(erro.CauseBy(err, mid), "C13.cause.causeby-finds-chain-member")
		other := erro.NewTraceableErrors("other").(erro.Traceable)
		verifAssert(!erro.CauseBy(err, other), "C13.cause.causeby-rejects-foreign")
	}
	plain := errors.New("plain")
	verifAssert(erro.Cause(plain) == nil, "C13.cause.plain-error-has-no-cause")
	verifReached("C13.cause")
}

func vC13One(i int) int { return i }

// VC_C13_result_rows: ill-formed result rows (too many values, too few, a value of the
// wrong size; in the first or a later row of Returns, or in a plain Return) given for
// a function or a method are rejected and leave the target un-mocked - whichever row is
// the ill-formed one.
func VC_C13_result_rows() {
	vEnv()
	vPristine(vC13F)
	vPristine(vC13G)
	vPristine(vC13One)
	get := interface{}((*vC13T).Get)
	vPristine(get)
	b := Create()
	onMethod := verifBool("method")
	var bad interface{}
	switch verifChoice("defect", 3) {
	case 0:
		bad = []interface{}{2, 3} // too many values
	case 1:
		bad = []interface{}{} // too few
	default:
		bad = int8(2) // wrong size
	}
	attempt := func() {
		switch verifChoice("api", 3) {
		case 0: // a later row of Returns
			if onMethod {
				b.Struct(&vC13T{}).Method("Get").Returns(1, bad)
			} else {
				b.Func(vC13One).Returns(1, bad)
			}
		case 1: // the first row of Returns
			if onMethod {
				b.Struct(&vC13T{}).Method("Get").Returns(bad, 1)
			} else {
				b.Func(vC13One).Returns(bad, 1)
			}
		default: // Return with too many values (When(c).Return(...) is two calls: the valid
			// When already mocks the target, so nothing is claimed about the rejected Return)
			if onMethod {
				b.Struct(&vC13T{}).Method("Get").Return(1, 2)
			} else {
				b.Func(vC13One).Return(1, 2)
			}
		}
	}
	vRejected(attempt, "C13.rows")
	verifAssert(!vDiverted(vC13One) && !vDiverted(get), "C13.rows.target-not-mocked")
	b.Reset()
	verifAssert(!vDiverted(vC13One) && !vDiverted(get), "C13.rows.reset-leaves-untouched")
	verifReached("C13.rows")
}

// VC_C13_chained_condition_mistakes: a condition row with too few (or too many) arguments
// given on a chained call - after a valid Return has already configured the target - is
// rejected as well: through When, through flat In alternatives and through a Matches pair;
// for a function and for a method.
func VC_C13_chained_condition_mistakes() {
	vEnv()
	vPristine(vC13F)
	get := interface{}((*vC13T).Get)
	vPristine(get)
	b := Create()
	onMethod := verifBool("method")
	short := verifBool("oneShort") // else: one too many
	panicked := false
	func() {
		defer func() {
			if r := recover(); r != nil {
				panicked = true
			}
		}()
		api := verifChoice("api", 3)
		if onMethod { // Get(i int) int
			w := b.Struct(&vC13T{}).Method("Get").Return(1)
			row := []interface{}{1, 2}
			if short {
				row = []interface{}{}
			}
			switch api {
			case 0:
				w.When(row...)
			case 1:
				w.In(row)
			default:
				w.Matches(arg.Pair{Args: row, Return: 1})
			}
			return
		}
		// vC13F(a int, s string) (int, error)
		w := b.Func(vC13F).Return(1, nil)
		row := []interface{}{1, "s", 3}
		if short {
			row = []interface{}{1}
		}
		switch api {
		case 0:
			w.When(row...)
		case 1:
			w.In(row)
		default:
			w.Matches(arg.Pair{Args: row, Return: []interface{}{1, nil}})
		}
	}()
	verifAssert(panicked, "C13.chained.ill-formed-condition-row-rejected")
	b.Reset()
	verifAssert(!vDiverted(vC13F) && !vDiverted(get), "C13.chained.reset-restores")
	verifReached("C13.chained")
}
