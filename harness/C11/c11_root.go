package mocker

// C11 at the builder level: goroutines that each use their own builder on their own
// target - mock, re-stub, reset - under every interleaving of the synchronisation points
// of the whole chain (builder, mocker, guard, patch table, memory writes). Unsynchronised
// access to shared state (the patch table above all) is reported by the engine's
// happens-before analysis as a data race.

func vC11T0(i int) int { return i + 1 }
func vC11T1(i int) int { return i + 2 }

func vC11Cb0(i int) int { return i + 100 }
func vC11Cb1(i int) int { return i + 200 }

// VC_C11_builders: two goroutines, two builders, two targets: each mocks its target
// (stub or callback), optionally re-stubs it, and resets; no data race, each target
// diverted while its builder holds the mock and pristine afterwards.
func VC_C11_builders() {
	vEnv()
	vPristine(vC11T0)
	vPristine(vC11T1)
	verifApart(verifFuncCode(vC11T0), verifFuncCode(vC11T1), 4096)
	r0, v0 := verifBool("restub"), verifBool("viaReturn")
	restub := [2]bool{r0, !r0}
	viaReturn := [2]bool{v0, !v0}
	var live [2]bool
	ts := [2]interface{}{vC11T0, vC11T1}
	cbs := [2]interface{}{vC11Cb0, vC11Cb1}
	for i := 0; i < 2; i++ {
		i := i
		verifSpawn(func() {
			b := Create()
			if viaReturn[i] {
				b.Func(ts[i]).Return(7)
			} else {
				b.Func(ts[i]).Apply(cbs[i])
			}
			if restub[i] {
				b.Func(ts[i]).Apply(cbs[i])
			}
			live[i] = vDiverted(ts[i])
			b.Reset()
		})
	}
	verifJoin()
	verifAssert(live[0] && live[1], "C11.builders.each-target-mocked-while-held")
	verifAssert(!vDiverted(vC11T0) && !vDiverted(vC11T1), "C11.builders.all-restored-at-quiescence")
	verifReached("C11.builders")
}
