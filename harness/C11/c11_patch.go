package patch

import (
	"reflect"
	"syscall"

	"github.com/tencent/goom/internal/bytecode/memory"
)

// C11: independent mockers and concurrent readers are race-free and isolated (goom's own
// lock protocol: patchesLock, memoryAccessLock, funcSizeReadLock).

// mprotect(2) succeeds (its arguments are the subject of C14), except on the pages of
// [vFailLo, vFailHi) when a VC injects a refusal there (EACCES: a read-only file mapping,
// an execmem policy, the VMA limit).
var vFailLo, vFailHi uintptr

//verif:stub syscall.Mprotect
func vStubMprotect(b []byte, prot int) error {
	// other goroutines execute code on the pages being written (a steadily mocked function,
	// its callback, the caller itself): no protection change may take execute away
	verifAssert(prot&syscall.PROT_EXEC != 0, "C11.mprotect.page-stays-executable")
	a := verifSliceAddr(b)
	if vFailHi != 0 && a < vFailHi && a+uintptr(len(b)) > vFailLo {
		return syscall.EACCES
	}
	return nil
}

// the raw-syscall fallback of WriteTo sees the same refusal
//
//verif:stub syscall.Syscall
func vStubSyscall(trap, a1, a2, a3 uintptr) (uintptr, uintptr, syscall.Errno) {
	// (the fallback, reached only after the primary mprotect was refused, is the macOS
	// work-around that cannot keep execute; it is outside the claim, as in C14)
	if trap == syscall.SYS_MPROTECT && vFailHi != 0 && a1 < vFailHi && a1+a2 > vFailLo {
		return 0, 0, syscall.EACCES
	}
	return 0, 0, 0
}

// a small complete function (standard prologue, body, int3 padding, morestack block)
var vFnBytes = []byte{
	0x49, 0x3B, 0x66, 0x10, 0x76, 0x1D, 0x55, 0x48, 0x89, 0xE5, 0x48, 0x83, 0xEC, 0x10,
	0x48, 0x8D, 0x40, 0x01, 0x48, 0x83, 0xC4, 0x10, 0x5D, 0xC3,
	0xCC, 0xCC, 0xCC, 0xCC, 0xCC, 0xCC, 0xCC, 0xCC, 0xCC, 0xCC, 0xCC,
	0x48, 0x89, 0x44, 0x24, 0x08, 0xE8, 0x00, 0x10, 0x00, 0x00, 0x48, 0x8B, 0x44, 0x24, 0x08, 0xEB, 0xCC,
	0xCC, 0xCC, 0xCC, 0xCC, 0xCC, 0xCC, 0xCC, 0xCC, 0xCC, 0xCC, 0xCC, 0xCC,
}

func vPlaceFn(name string) uintptr {
	a := verifUintptr(name)
	verifAssume(a >= 0x400000)
	verifAssume(a < 0x40000000)
	for i := 0; i < len(vFnBytes); i++ {
		verifImgStore(a+uintptr(i), vFnBytes[i])
	}
	return a
}

func vC11ReplA(i int) int { return i + 100 }
func vC11ReplB(i int) int { return i + 200 }

// VC_C11_mockers_and_reader: two goroutines, each mocking (and optionally cancelling) its
// own function through the real patch layer, and a third one reading a third function's
// code — under every interleaving of the lock acquisitions.
func VC_C11_mockers_and_reader() {
	patches = make(map[uintptr]*patch)
	t0, t1, t2 := vPlaceFn("t0"), vPlaceFn("t1"), vPlaceFn("t2")
	verifApart(t0, t1, 4096)
	verifApart(t0, t2, 4096)
	verifApart(t1, t2, 4096)
	snap := verifImgSnap()
	mark := verifImgBytesWritten()
	cancel0, cancel1 := verifChoice("cancel0", 2) == 1, verifChoice("cancel1", 2) == 1
	var err0, err1 error
	var seen []byte
	verifSpawn(func() {
		var g *Guard
		g, err0 = PtrTrampoline(t0, vC11ReplA, nil)
		if err0 == nil {
			g.Apply()
			if cancel0 {
				g.UnpatchWithLock()
			}
		}
	})
	verifSpawn(func() {
		var g *Guard
		g, err1 = PtrTrampoline(t1, vC11ReplB, nil)
		if err1 == nil {
			g.Apply()
			if cancel1 {
				g.UnpatchWithLock()
			}
		}
	})
	verifSpawn(func() {
		seen = memory.RawRead(t2, 16)
	})
	verifJoin()
	verifAssert(err0 == nil && err1 == nil, "C11.both-mocks-accepted")
	// isolation: every write of the whole run lies in one of the two entry windows
	for i := mark; i < verifImgBytesWritten(); i++ {
		w := verifImgWriteAddr(i)
		verifAssert(verifOr(w-t0 < 13, w-t1 < 13), "C11.writes-confined-to-own-targets")
	}
	// the reader saw the untouched function
	for k := 0; k < 16; k++ {
		verifAssert(seen[k] == vFnBytes[k], "C11.reader-sees-consistent-code")
	}
	// final state equals the serial outcome
	for k := 0; k < 13; k++ {
		if cancel0 {
			verifAssert(verifImgLoad(t0+uintptr(k)) == verifImgAt(snap, t0+uintptr(k)), "C11.final.cancelled-target-pristine")
		}
		if cancel1 {
			verifAssert(verifImgLoad(t1+uintptr(k)) == verifImgAt(snap, t1+uintptr(k)), "C11.final.cancelled-target-pristine")
		}
	}
	if !cancel0 {
		want := jmpToFunctionValue(t0, verifFuncAddr(vC11ReplA))
		for k := 0; k < 13; k++ {
			verifAssert(verifImgLoad(t0+uintptr(k)) == want[k], "C11.final.live-target-holds-its-jump")
		}
	}
	if !cancel1 {
		want := jmpToFunctionValue(t1, verifFuncAddr(vC11ReplB))
		for k := 0; k < 13; k++ {
			verifAssert(verifImgLoad(t1+uintptr(k)) == want[k], "C11.final.live-target-holds-its-jump")
		}
	}
	verifAssert(len(patches) == 2, "C11.final.table-has-both")
	verifReached("C11.mockers-and-reader")
}

// VC_C11_two_mockers: the two mockers alone (quick tier).
func VC_C11_two_mockers() {
	patches = make(map[uintptr]*patch)
	t0, t1 := vPlaceFn("t0"), vPlaceFn("t1")
	verifApart(t0, t1, 4096)
	snap := verifImgSnap()
	mark := verifImgBytesWritten()
	cancel := [2]bool{verifChoice("cancel0", 2) == 1, verifChoice("cancel1", 2) == 1}
	ts := [2]uintptr{t0, t1}
	rs := [2]interface{}{vC11ReplA, vC11ReplB}
	var errs [2]error
	for i := 0; i < 2; i++ {
		i := i
		verifSpawn(func() {
			g, err := PtrTrampoline(ts[i], rs[i], nil)
			errs[i] = err
			if err == nil {
				g.Apply()
				if cancel[i] {
					g.UnpatchWithLock()
				}
			}
		})
	}
	verifJoin()
	verifAssert(errs[0] == nil && errs[1] == nil, "C11.two.both-mocks-accepted")
	for i := mark; i < verifImgBytesWritten(); i++ {
		w := verifImgWriteAddr(i)
		verifAssert(verifOr(w-t0 < 13, w-t1 < 13), "C11.two.writes-confined-to-own-targets")
	}
	for i := 0; i < 2; i++ {
		want := jmpToFunctionValue(ts[i], verifFuncAddr(rs[i]))
		for k := 0; k < 13; k++ {
			if cancel[i] {
				verifAssert(verifImgLoad(ts[i]+uintptr(k)) == verifImgAt(snap, ts[i]+uintptr(k)), "C11.two.final.cancelled-target-pristine")
			} else {
				verifAssert(verifImgLoad(ts[i]+uintptr(k)) == want[k], "C11.two.final.live-target-holds-its-jump")
			}
		}
	}
	verifAssert(len(patches) == 2, "C11.two.final.table-has-both")
	verifReached("C11.two-mockers")
}

// VC_C11_mocker_and_reader: a goroutine reading the code of the very function another
// goroutine is mocking sees either the old or the new 13 bytes, never a mixture.
func VC_C11_mocker_and_reader() {
	patches = make(map[uintptr]*patch)
	t0 := vPlaceFn("t0")
	var seen []byte
	var err0 error
	verifSpawn(func() {
		var g *Guard
		g, err0 = PtrTrampoline(t0, vC11ReplA, nil)
		if err0 == nil {
			g.Apply()
		}
	})
	verifSpawn(func() {
		seen = memory.RawRead(t0, 13)
	})
	verifJoin()
	verifAssert(err0 == nil, "C11.reader.mock-accepted")
	want := jmpToFunctionValue(t0, verifFuncAddr(vC11ReplA))
	old, new := true, true
	for k := 0; k < 13; k++ {
		old = verifAnd(old, seen[k] == vFnBytes[k])
		new = verifAnd(new, seen[k] == want[k])
	}
	verifAssert(verifOr(old, new), "C11.reader.sees-old-or-new-never-a-mixture")
	verifReached("C11.mocker-and-reader")
}

// VC_C11_same_builder_style: the same two mockers without the reader, each doing
// mock; cancel; re-mock (three lock-protected phases per goroutine).
func VC_C11_remock() {
	patches = make(map[uintptr]*patch)
	t0, t1 := vPlaceFn("t0"), vPlaceFn("t1")
	verifApart(t0, t1, 4096)
	mark := verifImgBytesWritten()
	ts := [2]uintptr{t0, t1}
	rs := [2]interface{}{vC11ReplA, vC11ReplB}
	var errs [2]error
	for i := 0; i < 2; i++ {
		i := i
		verifSpawn(func() {
			g, err := PtrTrampoline(ts[i], rs[i], nil)
			if err != nil {
				errs[i] = err
				return
			}
			g.Apply()
			g.UnpatchWithLock()
			g2, err := PtrTrampoline(ts[i], rs[1-i], nil)
			if err != nil {
				errs[i] = err
				return
			}
			g2.Apply()
		})
	}
	verifJoin()
	verifAssert(errs[0] == nil && errs[1] == nil, "C11.remock.accepted")
	for i := mark; i < verifImgBytesWritten(); i++ {
		w := verifImgWriteAddr(i)
		verifAssert(verifOr(w-t0 < 13, w-t1 < 13), "C11.remock.writes-confined")
	}
	for i := 0; i < 2; i++ {
		want := jmpToFunctionValue(ts[i], verifFuncAddr(rs[1-i]))
		for k := 0; k < 13; k++ {
			verifAssert(verifImgLoad(ts[i]+uintptr(k)) == want[k], "C11.remock.final-jump")
		}
	}
	verifReached("C11.remock")
}


// VC_C11_fault_isolation: one goroutine's Apply fails (the kernel refuses to make its
// target's page writable; the caller recovers the panic) while another goroutine mocks and
// resets a function on another page: the failure stays with the first goroutine - the
// second one finishes under every interleaving (no lock is left held), its target is
// restored, and the patch layer is usable afterwards.
func VC_C11_fault_isolation() {
	patches = make(map[uintptr]*patch)
	t0, t1 := vPlaceFn("t0"), vPlaceFn("t1")
	verifApart(t0, t1, 16384)
	vFailLo, vFailHi = t0&^4095, (t0&^4095)+8192
	snap := verifImgSnap()
	panickedA := false
	doneB := false
	verifSpawn(func() {
		g, err := PtrTrampoline(t0, vC11ReplA, nil)
		if err != nil {
			return
		}
		defer func() {
			if r := recover(); r != nil {
				panickedA = true
			}
		}()
		g.Apply()
	})
	verifSpawn(func() {
		g, err := PtrTrampoline(t1, vC11ReplB, nil)
		if err == nil {
			g.Apply()
			g.UnpatchWithLock()
		}
		doneB = true
	})
	verifJoin()
	verifAssert(panickedA, "C11.fault.refusal-surfaces-to-its-own-caller")
	verifAssert(doneB, "C11.fault.other-builder-finishes")
	for k := 0; k < 13; k++ {
		verifAssert(verifImgLoad(t1+uintptr(k)) == verifImgAt(snap, t1+uintptr(k)), "C11.fault.other-target-restored")
		verifAssert(verifImgLoad(t0+uintptr(k)) == verifImgAt(snap, t0+uintptr(k)), "C11.fault.failed-target-unchanged")
	}
	// the patch layer is still usable
	g, err := PtrTrampoline(t1, vC11ReplA, nil)
	verifAssert(err == nil, "C11.fault.usable-afterwards")
	if err == nil {
		g.Apply()
		g.UnpatchWithLock()
	}
	vFailLo, vFailHi = 0, 0
	verifReached("C11.fault")
}

func vC11Target(i int) int { return i + 1 }

type vC11T struct{ n int }

func (t *vC11T) M(i int) int { return t.n + i }

func vC11ReplM(t *vC11T, i int) int { return i + 300 }

// vPlaceAt puts the bytes of the small complete function at the code address of a Go
// function of the harness.
func vPlaceAt(f interface{}) uintptr {
	a := verifFuncCode(f)
	for i := 0; i < len(vFnBytes); i++ {
		verifImgStore(a+uintptr(i), vFnBytes[i])
	}
	return a
}

// VC_C11_entry_points: two goroutines mock disjoint targets through different entry points
// of the patch layer (by code pointer, by function value, by type and method name - what
// Func, ExportFunc and Struct().Method mocks end in): every interleaving is free of data
// races on the patch table and both mocks are installed.
func VC_C11_entry_points() {
	patches = make(map[uintptr]*patch)
	t0, t1 := vPlaceAt(vC11Target), vPlaceAt((*vC11T).M)
	verifApart(t0, t1, 4096)
	e0, e1 := verifChoice("entry0", 2), verifChoice("entry1", 2)
	var errs [2]error
	verifSpawn(func() {
		var g *Guard
		if e0 == 0 {
			g, errs[0] = PtrTrampoline(t0, vC11ReplA, nil)
		} else {
			g, errs[0] = Trampoline(vC11Target, vC11ReplA, nil)
		}
		if errs[0] == nil {
			g.Apply()
		}
	})
	verifSpawn(func() {
		var g *Guard
		if e1 == 0 {
			g, errs[1] = InstanceMethodTrampoline(reflect.TypeOf(&vC11T{}), "M", vC11ReplM, nil)
		} else {
			g, errs[1] = UnsafePatchTrampoline((*vC11T).M, vC11ReplM, nil)
		}
		if errs[1] == nil {
			g.Apply()
		}
	})
	verifJoin()
	verifAssert(errs[0] == nil && errs[1] == nil, "C11.entry.both-mocks-accepted")
	w0 := jmpToFunctionValue(t0, verifFuncAddr(vC11ReplA))
	w1 := jmpToFunctionValue(t1, verifFuncAddr(vC11ReplM))
	for k := 0; k < 13; k++ {
		verifAssert(verifImgLoad(t0+uintptr(k)) == w0[k], "C11.entry.first-target-holds-its-jump")
		verifAssert(verifImgLoad(t1+uintptr(k)) == w1[k], "C11.entry.second-target-holds-its-jump")
	}
	verifAssert(len(patches) == 2, "C11.entry.table-has-both")
	verifReached("C11.entry-points")
}
