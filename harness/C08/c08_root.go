package mocker

import (
	"errors"
	"unsafe"
)

// C08: variable mocks take effect for every type and restore the pre-mock value.

type vCfg struct {
	A int
	B string
}

var (
	vgInt    int
	vgStr    string
	vgCfg    vCfg
	vgCfg2   vCfg
	vgPtr    *int
	vgErr    error
	vgMap    map[string]int
	vgSlice  []int
	vgSlice2 []int
)

// vK08: history length (3 in the quick tier; the thorough wrappers VC_C08x_* set 5)
var vK08 = 3

var vC08Ops = [5]string{"op0", "op1", "op2", "op3", "op4"}

// vVarHistory drives one variable through K operations chosen from Set(v1), Set(v2),
// Apply(func() T { return v3 }), Cancel (on the mocker), Reset (on the builder), with
// lookups through the builder each time.
//
//	ptr    pointer to the variable
//	vals   v0 (pre-mock), v1, v2, v3 as interface{} values of the variable's type
//	apply  callback returning v3
//	eq     compares the variable's current content with vals[i]
func vVarHistory(K int, ptr interface{}, vals [4]interface{}, apply interface{}, eq func(i int) bool, id string) {
	vEnv()
	b := Create()
	if vRetained08 {
		// every operation goes through the handle obtained once, also after Cancel/Reset
		vVarHistoryRetained(K, b, b.Var(ptr), vals, apply, eq, id)
		return
	}
	cur := 0 // index of the value the variable must hold now
	for step := 0; step < K; step++ {
		panicked := false
		func() {
			defer func() {
				if r := recover(); r != nil {
					panicked = true
				}
			}()
			switch verifChoice(vC08Ops[step], 5) {
			case 0:
				b.Var(ptr).Set(vals[1])
				cur = 1
			case 1:
				b.Var(ptr).Set(vals[2])
				cur = 2
			case 2:
				b.Var(ptr).Apply(apply)
				cur = 3
			case 3:
				b.Var(ptr).Cancel()
				cur = 0
			case 4:
				b.Reset()
				cur = 0
			}
		}()
		verifAssert(!panicked, id+".no-panic")
		if panicked {
			return
		}
		if cur == 0 {
			verifAssert(eq(0), id+".cancel-restores-pre-mock-value")
		} else {
			verifAssert(eq(cur), id+".set-takes-effect")
		}
	}
	b.Reset()
	verifAssert(eq(0), id+".final-reset-restores")
	verifReached(id)
}

// vRetained08: the histories keep one VarMock handle instead of looking it up each time
var vRetained08 bool

func vVarHistoryRetained(K int, b *Builder, h VarMock, vals [4]interface{}, apply interface{}, eq func(i int) bool, id string) {
	cur := 0
	for step := 0; step < K; step++ {
		panicked := false
		func() {
			defer func() {
				if r := recover(); r != nil {
					panicked = true
				}
			}()
			switch verifChoice(vC08Ops[step], 5) {
			case 0:
				h.Set(vals[1])
				cur = 1
			case 1:
				h.Set(vals[2])
				cur = 2
			case 2:
				h.Apply(apply)
				cur = 3
			case 3:
				h.Cancel()
				cur = 0
			case 4:
				b.Reset()
				cur = 0
			}
		}()
		verifAssert(!panicked, id+".no-panic")
		if panicked {
			return
		}
		if cur == 0 {
			verifAssert(eq(0), id+".cancel-restores-pre-mock-value")
		} else {
			verifAssert(eq(cur), id+".set-takes-effect")
		}
	}
	h.Cancel()
	b.Reset()
	verifAssert(eq(0), id+".final-cancel-restores")
	verifReached(id)
}

// VC_C08_retained_int / _struct: the same histories through one retained handle (Set
// after a Cancel/Reset on the same handle, repeated Cancel, ...).
func VC_C08_retained_int() {
	vRetained08 = true
	defer func() { vRetained08 = false }()
	v0, v1, v2, v3 := verifInt("v0"), verifInt("v1"), verifInt("v2"), verifInt("v3")
	vgInt = v0
	vals := [4]interface{}{v0, v1, v2, v3}
	vVarHistory(4, &vgInt, vals, func() int { return v3 }, func(i int) bool { return vgInt == vals[i].(int) }, "C08.retained.int")
}

func VC_C08_int() {
	v0, v1, v2, v3 := verifInt("v0"), verifInt("v1"), verifInt("v2"), verifInt("v3")
	vgInt = v0
	vals := [4]interface{}{v0, v1, v2, v3}
	vVarHistory(vK08, &vgInt, vals, func() int { return v3 }, func(i int) bool { return vgInt == vals[i].(int) }, "C08.int")
}

func VC_C08_string() {
	vgStr = "orig"
	vals := [4]interface{}{"orig", "m1", "m2", "m3"}
	vVarHistory(vK08, &vgStr, vals, func() string { return "m3" }, func(i int) bool { return vgStr == vals[i].(string) }, "C08.string")
}

func VC_C08_struct() {
	a0, a1 := verifInt("a0"), verifInt("a1")
	vgCfg = vCfg{A: a0, B: "svc"}
	vals := [4]interface{}{vCfg{a0, "svc"}, vCfg{a1, "m1"}, vCfg{2, "m2"}, vCfg{3, "m3"}}
	vVarHistory(vK08, &vgCfg, vals, func() vCfg { return vCfg{3, "m3"} }, func(i int) bool { return vgCfg == vals[i].(vCfg) }, "C08.struct")
}

func VC_C08_ptr() {
	x0, x1, x2, x3 := 10, 11, 12, 13
	var np *int
	ps := [4]*int{&x0, &x1, &x2, &x3}
	if verifBool("startNil") {
		ps[0] = np
	}
	vgPtr = ps[0]
	vals := [4]interface{}{ps[0], ps[1], ps[2], ps[3]}
	vVarHistory(vK08, &vgPtr, vals, func() *int { return ps[3] }, func(i int) bool { return vgPtr == ps[i] }, "C08.ptr")
}

func VC_C08_error() {
	e1, e2, e3 := errors.New("e1"), errors.New("e2"), errors.New("e3")
	var e0 error
	if !verifBool("startNil") {
		e0 = errors.New("e0")
	}
	vgErr = e0
	es := [4]error{e0, e1, e2, e3}
	vals := [4]interface{}{e0, e1, e2, e3}
	vVarHistory(vK08, &vgErr, vals, func() error { return e3 }, func(i int) bool { return vgErr == es[i] }, "C08.error")
}

func VC_C08_map() {
	m0, m1, m2, m3 := map[string]int{"a": 0}, map[string]int{"a": 1}, map[string]int{"a": 2}, map[string]int{"a": 3}
	if verifBool("startNil") {
		m0 = nil
	}
	vgMap = m0
	vals := [4]interface{}{m0, m1, m2, m3}
	vVarHistory(vK08, &vgMap, vals, func() map[string]int { return m3 }, func(i int) bool {
		want := vals[i].(map[string]int)
		return (vgMap == nil) == (want == nil) && vgMap["a"] == want["a"] && len(vgMap) == len(want)
	}, "C08.map")
}

// VC_C08_two_vars: two different variables of one type with equal contents are mocked
// independently in one builder and both restored.
func VC_C08_two_vars() {
	vEnv()
	vgCfg, vgCfg2 = vCfg{3, "svc"}, vCfg{3, "svc"}
	vgSlice, vgSlice2 = nil, nil
	b := Create()
	b.Var(&vgCfg).Set(vCfg{1, "mockA"})
	b.Var(&vgCfg2).Set(vCfg{2, "mockB"})
	verifAssert(vgCfg == vCfg{1, "mockA"}, "C08.two.first-sees-its-mock")
	verifAssert(vgCfg2 == vCfg{2, "mockB"}, "C08.two.second-sees-its-mock")
	b.Var(&vgSlice).Set([]int{1})
	b.Var(&vgSlice2).Set([]int{2, 2})
	verifAssert(len(vgSlice) == 1 && len(vgSlice2) == 2, "C08.two.slices-independent")
	b.Reset()
	verifAssert(vgCfg == vCfg{3, "svc"} && vgCfg2 == vCfg{3, "svc"}, "C08.two.reset-restores-both")
	verifAssert(vgSlice == nil && vgSlice2 == nil, "C08.two.reset-restores-slices")
	verifReached("C08.two")
}

// VC_C08_never_set: cancelling a variable mock that was never set leaves the variable
// untouched (and does not panic).
func VC_C08_never_set() {
	vEnv()
	v0 := verifInt("v0")
	vgInt = v0
	vgErr = nil
	b := Create()
	panicked := false
	func() {
		defer func() {
			if r := recover(); r != nil {
				panicked = true
			}
		}()
		b.Var(&vgInt)
		b.Var(&vgErr)
		b.Reset()
	}()
	verifAssert(!panicked, "C08.never-set.no-panic")
	verifAssert(vgInt == v0 && vgErr == nil, "C08.never-set.untouched")
	verifReached("C08.never-set")
}

func VC_C08_slice() {
	s0, s1, s2, s3 := []int{0}, []int{1, 1}, []int{2, 2, 2}, []int{3}
	if verifBool("startNil") {
		s0 = nil
	}
	vgSlice = s0
	vals := [4]interface{}{s0, s1, s2, s3}
	vVarHistory(vK08, &vgSlice, vals, func() []int { return s3 }, func(i int) bool {
		want := vals[i].([]int)
		if (vgSlice == nil) != (want == nil) || len(vgSlice) != len(want) {
			return false
		}
		return len(want) == 0 || &vgSlice[0] == &want[0]
	}, "C08.slice")
}

var vgFunc func(int) int

func vC08F0(i int) int { return i }
func vC08F1(i int) int { return i + 1 }
func vC08F2(i int) int { return i + 2 }
func vC08F3(i int) int { return i + 3 }

func VC_C08_func() {
	fs := [4]func(int) int{vC08F0, vC08F1, vC08F2, vC08F3}
	if verifBool("startNil") {
		fs[0] = nil
	}
	vgFunc = fs[0]
	vals := [4]interface{}{fs[0], fs[1], fs[2], fs[3]}
	x := verifInt("x")
	vVarHistory(vK08, &vgFunc, vals, func() func(int) int { return vC08F3 }, func(i int) bool {
		if fs[i] == nil || vgFunc == nil {
			return (fs[i] == nil) == (vgFunc == nil)
		}
		return vgFunc(x) == x+i
	}, "C08.func")
}

var vgUnexp int

// the symbol lookup itself is the subject of C10: the named variable's address, an error
// for every other name
//
//verif:stub github.com/tencent/goom/internal/unexports2.FindVarByName
func vStubFindVarByName(name string) (uintptr, error) {
	if name == "github.com/tencent/goom.vgUnexp" {
		return uintptr(unsafe.Pointer(&vgUnexp)), nil
	}
	return 0, errors.New("var not found")
}

// VC_C08_unexported_by_name: a variable addressed by "package.name". (No native
// cross-validation: natively the real symbol lookup runs, which is C10's subject.)
//
//verif:opt xcheck=off
func VC_C08_unexported_by_name() {
	vEnv()
	v0, v1, v2 := verifInt("v0"), verifInt("v1"), verifInt("v2")
	vgUnexp = v0
	b := Create()
	const path = "github.com/tencent/goom.vgUnexp"
	for step := 0; step < 3; step++ {
		switch verifChoice(vC08Ops[step], 4) {
		case 0:
			b.UnExportedVar(path).Set(v1)
			verifAssert(vgUnexp == v1, "C08.byname.set-takes-effect")
		case 1:
			b.UnExportedVar(path).Set(v2)
			verifAssert(vgUnexp == v2, "C08.byname.set-takes-effect")
		case 2:
			b.UnExportedVar(path).Cancel()
			verifAssert(vgUnexp == v0, "C08.byname.cancel-restores-pre-mock-value")
		case 3:
			b.Reset()
			verifAssert(vgUnexp == v0, "C08.byname.cancel-restores-pre-mock-value")
		}
	}
	b.Reset()
	verifAssert(vgUnexp == v0, "C08.byname.final-reset-restores")
	verifReached("C08.byname")
}

// thorough tier: the same histories with five operations
func VC_C08x_int()    { vK08 = 5; VC_C08_int() }
func VC_C08x_string() { vK08 = 5; VC_C08_string() }
func VC_C08x_struct() { vK08 = 5; VC_C08_struct() }
func VC_C08x_ptr()    { vK08 = 5; VC_C08_ptr() }
func VC_C08x_error()  { vK08 = 5; VC_C08_error() }
func VC_C08x_map()    { vK08 = 5; VC_C08_map() }
func VC_C08x_slice()  { vK08 = 5; VC_C08_slice() }
func VC_C08x_func()   { vK08 = 5; VC_C08_func() }

var vgAny interface{}

type vC08Err struct{ code int }

func (e *vC08Err) Error() string { return "vC08Err" }

// VC_C08_iface_zero: an interface-typed variable whose pre-mock value is non-nil but
// boxes a zero value (int 0, "", false, a typed nil pointer, a zero struct): Cancel/Reset
// put back exactly that value, dynamic type included - not a nil interface.
func VC_C08_iface_zero() {
	var tn *vC08Err
	orig := [6]interface{}{0, "", false, tn, vCfg{}, nil}
	k := verifChoice("orig", 6)
	vgAny = orig[k]
	vals := [4]interface{}{orig[k], 1, "m2", vCfg{3, "m3"}}
	vVarHistory(vK08, &vgAny, vals, func() interface{} { return vCfg{3, "m3"} }, func(i int) bool {
		if i == 0 {
			switch k {
			case 0:
				v, ok := vgAny.(int)
				return ok && v == 0
			case 1:
				v, ok := vgAny.(string)
				return ok && v == ""
			case 2:
				v, ok := vgAny.(bool)
				return ok && !v
			case 3:
				v, ok := vgAny.(*vC08Err)
				return ok && v == nil && vgAny != nil
			case 4:
				v, ok := vgAny.(vCfg)
				return ok && v == vCfg{}
			}
			return vgAny == nil
		}
		return vgAny == vals[i]
	}, "C08.iface-zero")
}

// the same for an error variable holding a typed nil pointer (a non-nil error)
func VC_C08_error_typed_nil() {
	var tn *vC08Err
	vgErr = tn
	e1, e2, e3 := errors.New("e1"), errors.New("e2"), errors.New("e3")
	vals := [4]interface{}{vgErr, e1, e2, e3}
	es := [4]error{vgErr, e1, e2, e3}
	vVarHistory(vK08, &vgErr, vals, func() error { return e3 }, func(i int) bool {
		if i == 0 {
			v, ok := vgErr.(*vC08Err)
			return ok && v == nil && vgErr != nil
		}
		return vgErr == es[i]
	}, "C08.error-typed-nil")
}

var vgInt8 int8
var vgI64 int64

// VC_C08_wrong_type: a value whose type is not the variable's (though convertible to it)
// is rejected by a panic and the variable keeps its value - it is never stored in a
// converted, different form.
func VC_C08_wrong_type() {
	vEnv()
	vgInt8, vgStr, vgInt, vgI64 = 7, "orig", 9, 11
	b := Create()
	k := verifChoice("case", 4)
	panicked := false
	func() {
		defer func() {
			if r := recover(); r != nil {
				panicked = true
			}
		}()
		switch k {
		case 0:
			b.Var(&vgInt8).Set(300)
		case 1:
			b.Var(&vgStr).Set(65)
		case 2:
			b.Var(&vgInt).Set(2.75)
		case 3:
			b.Var(&vgI64).Set(^uint64(0))
		}
	}()
	verifAssert(panicked, "C08.wrong-type.rejected")
	verifAssert(vgInt8 == 7 && vgStr == "orig" && vgInt == 9 && vgI64 == 11, "C08.wrong-type.variable-untouched")
	b.Reset()
	verifAssert(vgInt8 == 7 && vgStr == "orig" && vgInt == 9 && vgI64 == 11, "C08.wrong-type.reset-leaves-untouched")
	verifReached("C08.wrong-type")
}

// VC_C08_assigned_between_lookup_and_set: the program assigns the variable after the
// mocker was looked up and before its first Set/Apply (or it is never set at all): what
// Cancel/Reset restores is the value the variable held right before the first mock write;
// a mocker that never wrote leaves the variable alone.
func VC_C08_assigned_between_lookup_and_set() {
	vEnv()
	v0, w, v1 := verifInt("v0"), verifInt("w"), verifInt("v1")
	x0, x1 := 1, 2
	vgInt, vgPtr = v0, &x0
	b := Create()
	hi, hp := b.Var(&vgInt), b.Var(&vgPtr)
	vgInt, vgPtr = w, &x1 // ordinary program code
	switch verifChoice("then", 3) {
	case 0:
		hi.Set(v1)
		hp.Set(&x0)
		verifAssert(vgInt == v1 && vgPtr == &x0, "C08.assigned-between.set-takes-effect")
	case 1:
		hi.Apply(func() int { return v1 })
		verifAssert(vgInt == v1, "C08.assigned-between.set-takes-effect")
	default: // never set
	}
	if verifBool("cancelHandles") {
		hi.Cancel()
		hp.Cancel()
	} else {
		b.Reset()
	}
	verifAssert(vgInt == w, "C08.assigned-between.restores-the-value-before-the-first-mock-write")
	verifAssert(vgPtr == &x1, "C08.assigned-between.restores-the-pointer-before-the-first-mock-write")
	verifReached("C08.assigned-between")
}
