package patch

// Environment shared by the patch-layer harnesses (C01, C02, C13, C14): contract stubs for
// mprotect and for bytecode.GetFuncSize, and helpers to set up targets in the symbolic
// process image.

const (
	vTextLo = uintptr(0x400000)
	vTextHi = uintptr(0x40000000)
)

// mprotect(2) succeeds (linux/amd64); its arguments are the subject of C14's memory VCs.
//
//verif:stub syscall.Mprotect
func vStubMprotect(b []byte, prot int) error { return nil }

type vTarget struct {
	addr uintptr
	size int
}

var vTargets [4]vTarget
var vNumTargets int

// GetFuncSize scans machine code with the bundled decoder (subject of C16 and of the
// extent VC); here it answers from a ghost table of symbolic sizes.
//
//verif:stub github.com/tencent/goom/internal/bytecode.GetFuncSize
func vStubGetFuncSize(mode int, start uintptr, minimal bool) (int, error) {
	for i := 0; i < vNumTargets; i++ {
		if vTargets[i].addr == start {
			return vTargets[i].size, nil
		}
	}
	n := verifInt("funcsize.other")
	verifAssume(n >= 0)
	verifAssume(n < 1<<20)
	return n, nil
}

var vTargetNames = [4]string{"t0", "t1", "t2", "t3"}
var vSizeNames = [4]string{"size0", "size1", "size2", "size3"}

// vNewTarget declares a function at a symbolic text address with a symbolic extent.
func vNewTarget() *vTarget {
	i := vNumTargets
	a := verifUintptr(vTargetNames[i])
	verifAssume(a >= vTextLo)
	verifAssume(a < vTextHi)
	n := verifInt(vSizeNames[i])
	verifAssume(n >= 0)
	verifAssume(n < 1<<20)
	vTargets[i] = vTarget{addr: a, size: n}
	vNumTargets++
	return &vTargets[i]
}

func vReset() {
	vNumTargets = 0
	patches = make(map[uintptr]*patch)
}

// replacement functions (their func values and code get symbolic addresses in the engine)
func vReplA(i int) int { return i + 100 }
func vReplB(i int) int { return i + 200 }
func vReplC(i int) int { return i + 300 }

// vWrittenInside: every byte stored into the image since mark lies in [lo, lo+n).
func vWrittenInside(mark int, lo uintptr, n int, id string) {
	for i := mark; i < verifImgBytesWritten(); i++ {
		verifAssert(verifImgWriteAddr(i)-lo < uintptr(n), id)
	}
}
