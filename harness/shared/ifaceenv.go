package iface

import "reflect"

// Harness access to package-private pieces of internal/iface.

// VerifNotImplementPC: code address of the function every un-mocked slot must point to.
func VerifNotImplementPC() uintptr { return reflect.ValueOf(notImplement).Pointer() }

// VerifStubLen: size of one interface stub slot.
func VerifStubLen() int { return interfaceJumpDataLen }
