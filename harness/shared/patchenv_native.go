package patch

// Native counterpart of patchenv.go (replays of pure relocator harnesses).

const (
	vTextLo = uintptr(0x400000)
	vTextHi = uintptr(0x40000000)
)
