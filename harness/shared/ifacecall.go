package mocker

import (
	"reflect"
	"unsafe"

	"github.com/tencent/goom/internal/hack"
	"github.com/tencent/goom/internal/iface"
)

// Calling a method on a mocked interface variable the way the machine does it: load the
// itab word, load Fun[slot], execute the stub bytes goom wrote with the x86
// micro-semantics (x86sem.go), call the func value reached with the data word as receiver.

// the symbol lookup of reflect.makeFuncStub is the subject of C10
//
//verif:stub github.com/tencent/goom/internal/unexports2.FindFuncByName
func vStubFindFuncByName(name string) (uintptr, error) {
	a := verifUintptr("sym." + name)
	verifAssume(a >= 0x400000)
	verifAssume(a < 0x40000000)
	return a, nil
}

// vSlotOf: index of method name in the interface's method table (as reflect reports it).
func vSlotOf(t reflect.Type, name string) int {
	for i := 0; i < t.NumMethod(); i++ {
		if t.Method(i).Name == name {
			return i
		}
	}
	return -1
}

// vDispatch: what calling slot j of the variable at p does: (reached func value, receiver
// word, whether it lands on notImplement).
func vDispatch(p unsafe.Pointer, j int, id string) (f interface{}, recv unsafe.Pointer, notImpl bool) {
	hi := (*hack.Iface)(p)
	verifAssert(hi.Tab != nil, id+".variable-non-nil")
	if hi.Tab == nil {
		return nil, nil, false
	}
	fn := hi.Tab.Fun[j]
	if fn == iface.VerifNotImplementPC() {
		return nil, hi.Data, true
	}
	var m vx86
	m.ok = true
	jumped := m.runFrom(uint64(fn))
	verifAssert(m.ok && jumped, id+".stub-decodes")
	f = verifFuncAt(uintptr(m.regs[2]))
	verifAssert(f != nil, id+".stub-reaches-known-func-value")
	if f != nil {
		verifAssert(uint64(verifFuncCode(f)) == m.rip, id+".stub-lands-on-its-code")
	}
	return f, hi.Data, false
}

func vCall07(f interface{}, recv unsafe.Pointer, x int) (r int, panicked bool) {
	defer func() {
		if e := recover(); e != nil {
			panicked = true
		}
	}()
	return f.(func(*IContext, int) int)((*IContext)(recv), x), false
}

