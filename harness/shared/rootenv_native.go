package mocker

import (
	"unsafe"

	"github.com/tencent/goom/internal/logger"
)

// Native counterpart of rootenv.go for replays: the real patch layer writes real code, so
// "what a call reaches" is simply what calling the function does.

func vEnv() {
	logger.LogLevel = verifInt("logger.LogLevel")
	logger.ConsoleLevel = verifInt("logger.ConsoleLevel")
	logger.ShowError2Console = verifBool("logger.ShowError2Console")
}

func vPristine(target interface{}) uintptr {
	e := verifFuncCode(target)
	verifWatch(e, 32)
	return e
}

func vInvoke(target interface{}, id string) interface{} { return target }

func vDiverted(target interface{}) bool {
	return *(*byte)(unsafe.Pointer(verifFuncCode(target))) == 0x90
}
