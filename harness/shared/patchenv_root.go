package patch

// Environment stubs for harnesses that drive the patch layer from the root package.

// mprotect(2) succeeds (linux/amd64); its arguments are the subject of C14.
//
//verif:stub syscall.Mprotect
func vStubMprotect(b []byte, prot int) error { return nil }

// GetFuncSize: every function has the same symbolic extent, large enough for the jump
// (refusal of short functions is the subject of C14/C13's patch-layer VCs).
//
//verif:stub github.com/tencent/goom/internal/bytecode.GetFuncSize
func vStubGetFuncSize(mode int, start uintptr, minimal bool) (int, error) {
	n := verifInt("funcsize")
	verifAssume(n >= 32)
	verifAssume(n < 1<<20)
	return n, nil
}

// VerifResetPatches clears the global patch table between scenarios.
func VerifResetPatches() { patches = make(map[uintptr]*patch) }
