package mocker

import (
	"github.com/tencent/goom/internal/logger"
	"github.com/tencent/goom/internal/patch"
)

// Root-package harness environment: symbolic log levels, pristine targets, and vInvoke,
// which resolves what a call to a (possibly mocked) function reaches by executing the
// bytes at its entry with the x86 micro-semantics.

// vEnv makes every logging configuration possible (C19: verdicts hold for all of them).
func vEnv() {
	logger.LogLevel = verifInt("logger.LogLevel")
	logger.ConsoleLevel = verifInt("logger.ConsoleLevel")
	logger.ShowError2Console = verifBool("logger.ShowError2Console")
	patch.VerifResetPatches()
}

// vPristine declares target as an un-mocked function: its entry byte is not the
// already-patched sentinel.
func vPristine(target interface{}) uintptr {
	e := verifFuncCode(target)
	verifAssume(verifImgLoad(e) != 0x90)
	return e
}

// vInvoke returns the func value that a call of target reaches now: target itself while
// its entry is pristine, otherwise the func value whose address the entry jump loads into
// RDX (checked to be the jump's destination).
func vInvoke(target interface{}, id string) interface{} {
	e := verifFuncCode(target)
	if verifImgLoad(e) != 0x90 {
		return target
	}
	var m vx86
	m.ok = true
	jumped := m.runFrom(uint64(e))
	verifAssert(m.ok && jumped, id+".entry-decodes")
	f := verifFuncAt(uintptr(m.regs[2]))
	verifAssert(f != nil, id+".reaches-known-func-value")
	if f == nil {
		return target
	}
	verifAssert(uint64(verifFuncCode(f)) == m.rip, id+".lands-on-its-code")
	return f
}

// vDiverted reports whether target's entry currently holds a jump.
func vDiverted(target interface{}) bool {
	return verifImgLoad(verifFuncCode(target)) == 0x90
}
