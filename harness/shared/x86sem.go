package PKG

// x86-64 micro-semantics used as the oracle for emitted code (DESIGN §3.6). It is
// ordinary Go, symbolically executed by the same engine; it fetches bytes from the
// process image and recognises only the encodings goom is allowed to emit.

type vx86 struct {
	rip  uint64
	regs [16]uint64
	ok   bool
}

var vregNames = [16]string{"rax", "rcx", "rdx", "rbx", "rsp", "rbp", "rsi", "rdi", "r8", "r9", "r10", "r11", "r12", "r13", "r14", "r15"}

func (m *vx86) havoc() {
	for i := 0; i < 16; i++ {
		m.regs[i] = verifU64(vregNames[i])
	}
	m.ok = true
}

func vsext8(b byte) uint64   { return uint64(int64(int8(b))) }
func vsext32(v uint32) uint64 { return uint64(int64(int32(v))) }

// step executes one instruction; unknown encodings clear ok. It reports whether the
// instruction was a control transfer.
func (m *vx86) step() bool {
	b0 := verifImgLoad(uintptr(m.rip))
	switch {
	case b0 == 0x90:
		m.rip++
		return false
	case b0 == 0x48 || b0 == 0x49:
		b1 := verifImgLoad(uintptr(m.rip + 1))
		if b1&0xF8 != 0xB8 {
			m.ok = false
			return false
		}
		r := int(b1&7) | int(b0&1)<<3
		m.regs[r] = verifImgLoad64(uintptr(m.rip + 2))
		m.rip += 10
		return false
	case b0 == 0xFF:
		modrm := verifImgLoad(uintptr(m.rip + 1))
		mod, reg, rm := modrm>>6, (modrm>>3)&7, int(modrm&7)
		if reg != 4 {
			m.ok = false
			return false
		}
		switch {
		case mod == 0 && rm != 4 && rm != 5:
			m.rip = verifImgLoad64(uintptr(m.regs[rm]))
		case mod == 3:
			m.rip = m.regs[rm]
		case mod == 0 && rm == 5:
			d := verifImgLoad32(uintptr(m.rip + 2))
			m.rip = verifImgLoad64(uintptr(m.rip + 6 + vsext32(d)))
		default:
			m.ok = false
		}
	case b0 == 0xE9:
		d := verifImgLoad32(uintptr(m.rip + 1))
		m.rip = m.rip + 5 + vsext32(d)
	case b0 == 0xEB:
		d := verifImgLoad(uintptr(m.rip + 1))
		m.rip = m.rip + 2 + vsext8(d)
	default:
		m.ok = false
	}
	return true
}

// runFrom executes from addr until the first control transfer (at most 4 instructions).
// jumped reports that a transfer was executed.
func (m *vx86) runFrom(addr uint64) (jumped bool) {
	m.rip = addr
	for i := 0; i < 4 && m.ok; i++ {
		if m.step() {
			return m.ok
		}
	}
	return false
}

func (m *vx86) sameExcept(o *vx86, skip int) bool {
	same := true
	for i := 0; i < 16; i++ {
		if i != skip && m.regs[i] != o.regs[i] {
			same = false
		}
	}
	return same
}

func vstore(addr uintptr, code []byte) {
	for i := 0; i < len(code); i++ {
		verifImgStore(addr+uintptr(i), code[i])
	}
}
