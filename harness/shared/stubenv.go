package stub

import "errors"

// mmap(2) MAP_ANON as seen by stub.Acquire: fails or returns a fresh page-aligned region,
// disjoint from all earlier ones (contract stub shared by C07; C20 checks Acquire itself).

var vMmapN int
var vMmapAddrs [8]uintptr
var vMmapNames = [8]string{"mmap0", "mmap1", "mmap2", "mmap3", "mmap4", "mmap5", "mmap6", "mmap7"}

// VerifResetMmap starts a fresh scenario.
func VerifResetMmap() { vMmapN = 0 }

//verif:stub syscall.Mmap
func vStubMmap(fd int, offset int64, length int, prot int, flags int) ([]byte, error) {
	k := vMmapN
	if k >= len(vMmapAddrs) {
		return nil, errors.New("mmap: out of model regions")
	}
	vMmapN++
	a := verifUintptr(vMmapNames[k])
	verifAssume(a >= 0x7f0000000000)
	verifAssume(a < 0x7f8000000000)
	verifAssume(a%4096 == 0)
	for i := 0; i < k; i++ {
		verifApart(a, vMmapAddrs[i], 4096)
	}
	vMmapAddrs[k] = a
	return verifImgSlice(a, length), nil
}
