package mocker

import (
	"errors"
	"reflect"

	"github.com/tencent/goom/arg"
)

// C04: conditional stubs select results by first matching condition, else default, else
// panic; Match = conjunction of per-argument verdicts, receiver skipped, variadic tail
// matched element by element.

func vF2(a, b int) int           { return 0 }
func vFV(rest ...int) int        { return 0 }
func vFPV(p int, rest ...int) int { return 0 }
func vFSV(p string, rest ...int) int { return 0 }

type vRecv struct{ n int }

func (r *vRecv) M(a int) int { return 0 }

// vStubFunc builds the function a mock of funcDef would install for when w.
func vStubFunc(w *When) interface{} {
	return reflect.MakeFunc(w.funcTyp, func(args []reflect.Value) []reflect.Value {
		return w.invoke(args)
	}).Interface()
}

var vKindN = [8]string{"kind0", "kind1", "kind2", "kind3", "kind4", "kind5", "kind6", "kind7"}
var vXN = [8]string{"x0", "x1", "x2", "x3", "x4", "x5", "x6", "x7"}
var vYN = [8]string{"y0", "y1", "y2", "y3", "y4", "y5", "y6", "y7"}
var vRN = [4]string{"r0", "r1", "r2", "r3"}

// vArgExpr picks, for one argument position, a plain value, Any() or In(x, y) and
// returns the expression together with its verdict on the actual argument p.
func vArgExpr(slot int, p int) (interface{}, bool) {
	x, y := verifInt(vXN[slot]), verifInt(vYN[slot])
	switch verifChoice(vKindN[slot], 3) {
	case 0:
		return x, x == p
	case 1:
		return arg.Any(), true
	}
	return arg.In(x, y), verifOr(x == p, y == p)
}

func vCall2(f func(int, int) int, p, q int) (r int, panicked bool) {
	defer func() {
		if e := recover(); e != nil {
			panicked = true
		}
	}()
	return f(p, q), false
}

// vSelect: N conditions on func(a, b int) int, default present or absent.
func vSelect(N int) {
	vEnv()
	hasDef := verifBool("hasDefault")
	d := verifInt("default")
	var w *When
	var err error
	if hasDef {
		w, err = CreateWhen(nil, vF2, nil, []interface{}{d}, false)
	} else {
		w, err = CreateWhen(nil, vF2, nil, nil, false)
	}
	verifAssert(err == nil, "C04.select.create-ok")
	p, q := verifInt("p"), verifInt("q")
	var match [4]bool
	var res [4]int
	for i := 0; i < N; i++ {
		e1, m1 := vArgExpr(2*i, p)
		e2, m2 := vArgExpr(2*i+1, q)
		res[i] = verifInt(vRN[i])
		w.When(e1, e2).Return(res[i])
		match[i] = verifAnd(m1, m2)
	}
	f := vStubFunc(w).(func(int, int) int)
	got, panicked := vCall2(f, p, q)
	// reference: first registered matching condition, else default, else panic
	want := uint64(d)
	any := false
	for i := N - 1; i >= 0; i-- {
		want = verifIte(match[i], uint64(res[i]), want)
		any = verifOr(any, match[i])
	}
	if hasDef {
		verifAssert(!panicked, "C04.select.no-panic-with-default")
		verifAssert(uint64(got) == want, "C04.select.first-match-else-default")
	} else {
		verifAssert(panicked == !any, "C04.select.panics-iff-nothing-matches")
		if !panicked {
			verifAssert(uint64(got) == want, "C04.select.first-match")
		}
	}
	verifReached("C04.select")
}

func VC_C04_select2() { vSelect(2) }
func VC_C04_select3() { vSelect(3) }

// ---- variadic targets ----

func vCallV(f func(...int) int, args []int) (r int, panicked bool) {
	defer func() {
		if e := recover(); e != nil {
			panicked = true
		}
	}()
	return f(args...), false
}

var vTailN = [4]string{"t0", "t1", "t2", "t3"}
var vCondN = [4]string{"c0", "c1", "c2", "c3"}

// VC_C04_variadic: func(rest ...int): a condition with nc elements matches a call with
// na elements iff nc == na and the elements are equal one by one.
func VC_C04_variadic() {
	vEnv()
	w, err := CreateWhen(nil, vFV, nil, []interface{}{-1}, false)
	verifAssert(err == nil, "C04.variadic.create-ok")
	nc := verifChoice("ncond", 4)
	na := verifChoice("nargs", 4)
	cond := make([]interface{}, nc)
	cv := make([]int, nc)
	for i := 0; i < nc; i++ {
		cv[i] = verifInt(vCondN[i])
		cond[i] = cv[i]
	}
	args := make([]int, na)
	for i := 0; i < na; i++ {
		args[i] = verifInt(vTailN[i])
	}
	w.When(cond...).Return(7)
	f := vStubFunc(w).(func(...int) int)
	got, panicked := vCallV(f, args)
	verifAssert(!panicked, "C04.variadic.no-panic")
	m := nc == na
	if m {
		for i := 0; i < nc; i++ {
			m = verifAnd(m, cv[i] == args[i])
		}
	}
	verifAssert((got == 7) == m, "C04.variadic.elementwise")
	verifAssert(got == 7 || got == -1, "C04.variadic.result-is-configured")
	verifReached("C04.variadic")
}

// VC_C04_variadic_prefix: leading fixed parameter + variadic tail.
func VC_C04_variadic_prefix() {
	vEnv()
	defer func() {
		if e := recover(); e != nil {
			verifAssert(false, "C04.variadic-prefix.no-panic")
		}
	}()
	w, err := CreateWhen(nil, vFPV, nil, []interface{}{-1}, false)
	verifAssert(err == nil, "C04.variadic-prefix.create-ok")
	nc := verifChoice("ncond", 3)
	na := verifChoice("nargs", 3)
	cp, ap := verifInt("cp"), verifInt("ap")
	cond := []interface{}{cp}
	cv := make([]int, nc)
	for i := 0; i < nc; i++ {
		cv[i] = verifInt(vCondN[i])
		cond = append(cond, cv[i])
	}
	args := make([]int, na)
	for i := 0; i < na; i++ {
		args[i] = verifInt(vTailN[i])
	}
	w.When(cond...).Return(7)
	f := vStubFunc(w).(func(int, ...int) int)
	got := f(ap, args...)
	m := verifAnd(nc == na, cp == ap)
	if nc == na {
		for i := 0; i < nc; i++ {
			m = verifAnd(m, cv[i] == args[i])
		}
	}
	verifAssert((got == 7) == m, "C04.variadic-prefix.elementwise")
	verifReached("C04.variadic-prefix")
}

// VC_C04_variadic_in: In on a variadic function: each alternative is a full argument list.
func VC_C04_variadic_in() {
	vEnv()
	defer func() {
		if e := recover(); e != nil {
			verifAssert(false, "C04.variadic-in.no-panic")
		}
	}()
	w, err := CreateWhen(nil, vFV, nil, []interface{}{-1}, false)
	verifAssert(err == nil, "C04.variadic-in.create-ok")
	a1, a2, b1, b2 := verifInt("a1"), verifInt("a2"), verifInt("b1"), verifInt("b2")
	w.In([]interface{}{a1, a2}, []interface{}{b1, b2}).Return(7)
	x, y := verifInt("x"), verifInt("y")
	f := vStubFunc(w).(func(...int) int)
	got := f(x, y)
	m := verifOr(verifAnd(a1 == x, a2 == y), verifAnd(b1 == x, b2 == y))
	verifAssert((got == 7) == m, "C04.variadic-in.membership")
	got1 := f(x)
	verifAssert(got1 == -1, "C04.variadic-in.length-mismatch-is-no-match")
	verifReached("C04.variadic-in")
}

// VC_C04_method: a method's receiver is ignored by the conditions.
func VC_C04_method() {
	vEnv()
	w, err := CreateWhen(nil, (*vRecv).M, nil, []interface{}{-1}, true)
	verifAssert(err == nil, "C04.method.create-ok")
	c := verifInt("c")
	w.When(c).Return(7)
	f := vStubFunc(w).(func(*vRecv, int) int)
	r1, r2 := &vRecv{n: verifInt("n1")}, &vRecv{n: verifInt("n2")}
	a := verifInt("a")
	g1, g2 := f(r1, a), f(r2, a)
	verifAssert((g1 == 7) == (a == c), "C04.method.matches-on-args-only")
	verifAssert(g1 == g2, "C04.method.receiver-ignored")
	verifReached("C04.method")
}

// VC_C04_too_few_args: too few condition arguments / return values are rejected.
func VC_C04_config_counts() {
	vEnv()
	_, err := CreateWhen(nil, vF2, []interface{}{1}, nil, false)
	verifAssert(err != nil, "C04.config.too-few-args-rejected")
	_, err = CreateWhen(nil, vF2, nil, []interface{}{}, false)
	verifAssert(err != nil, "C04.config.too-few-returns-rejected")
	_, err = CreateWhen(nil, (*vRecv).M, []interface{}{}, nil, true)
	verifAssert(err != nil, "C04.config.method-too-few-args-rejected")
	verifReached("C04.config")
}

// VC_C04_variadic_prefix_in: In on a variadic function with a leading fixed parameter.
func VC_C04_variadic_prefix_in() {
	vEnv()
	defer func() {
		if e := recover(); e != nil {
			verifAssert(false, "C04.variadic-prefix-in.no-panic")
		}
	}()
	w, err := CreateWhen(nil, vFPV, nil, []interface{}{-1}, false)
	verifAssert(err == nil, "C04.variadic-prefix-in.create-ok")
	a0, a1, b0, b1 := verifInt("a0"), verifInt("a1"), verifInt("b0"), verifInt("b1")
	w.In([]interface{}{a0, a1}, []interface{}{b0, b1}).Return(7)
	x, y := verifInt("x"), verifInt("y")
	f := vStubFunc(w).(func(int, ...int) int)
	got := f(x, y)
	m := verifOr(verifAnd(a0 == x, a1 == y), verifAnd(b0 == x, b1 == y))
	verifAssert((got == 7) == m, "C04.variadic-prefix-in.membership")
	verifReached("C04.variadic-prefix-in")
}

// VC_C04_variadic_string_prefix: a string prefix parameter before the variadic tail.
func VC_C04_variadic_string_prefix() {
	vEnv()
	defer func() {
		if e := recover(); e != nil {
			verifAssert(false, "C04.variadic-sprefix.no-panic")
		}
	}()
	w, err := CreateWhen(nil, vFSV, nil, []interface{}{-1}, false)
	verifAssert(err == nil, "C04.variadic-sprefix.create-ok")
	c1, a1 := verifInt("c1"), verifInt("a1")
	w.When("k", c1).Return(7)
	f := vStubFunc(w).(func(string, ...int) int)
	verifAssert((f("k", a1) == 7) == (c1 == a1), "C04.variadic-sprefix.elementwise")
	verifAssert(f("other", a1) == -1, "C04.variadic-sprefix.prefix-must-match")
	verifAssert(f("k") == -1, "C04.variadic-sprefix.length-must-match")
	verifReached("C04.variadic-sprefix")
}

func (r *vRecv) MV(p int, rest ...int) int { return 0 }

// VC_C04_method_variadic: a variadic method: the receiver is skipped, then prefix and
// variadic tail are matched element by element for every combination of lengths.
func VC_C04_method_variadic() {
	vEnv()
	defer func() {
		if e := recover(); e != nil {
			verifAssert(false, "C04.method-variadic.no-panic")
		}
	}()
	w, err := CreateWhen(nil, (*vRecv).MV, nil, []interface{}{-1}, true)
	verifAssert(err == nil, "C04.method-variadic.create-ok")
	nc := verifChoice("ncond", 4)
	na := verifChoice("nargs", 4)
	cp, ap := verifInt("cp"), verifInt("ap")
	cond := []interface{}{cp}
	cv := make([]int, nc)
	for i := 0; i < nc; i++ {
		cv[i] = verifInt(vCondN[i])
		cond = append(cond, cv[i])
	}
	args := make([]int, na)
	for i := 0; i < na; i++ {
		args[i] = verifInt(vTailN[i])
	}
	w.When(cond...).Return(7)
	f := vStubFunc(w).(func(*vRecv, int, ...int) int)
	got := f(&vRecv{n: verifInt("n1")}, ap, args...)
	m := verifAnd(nc == na, cp == ap)
	if nc == na {
		for i := 0; i < nc; i++ {
			m = verifAnd(m, cv[i] == args[i])
		}
	}
	verifAssert((got == 7) == m, "C04.method-variadic.elementwise")
	verifAssert(got == 7 || got == -1, "C04.method-variadic.result-is-configured")
	verifReached("C04.method-variadic")
}


// VC_C04_variadic_in_lengths: In on a variadic function with alternatives of (possibly
// different) lengths 1..2 against calls of 0..3 arguments: a call matches iff some
// alternative has exactly its length and equals it element by element.
func VC_C04_variadic_in_lengths() {
	vEnv()
	defer func() {
		if e := recover(); e != nil {
			verifAssert(false, "C04.variadic-in-lengths.no-panic")
		}
	}()
	w, err := CreateWhen(nil, vFV, nil, []interface{}{-1}, false)
	verifAssert(err == nil, "C04.variadic-in-lengths.create-ok")
	la := 1 + verifChoice("lenA", 2)
	lb := 1 + verifChoice("lenB", 2)
	na := verifChoice("nargs", 4)
	a1, a2, b1, b2 := verifInt("a1"), verifInt("a2"), verifInt("b1"), verifInt("b2")
	altA := []interface{}{a1, a2}[:la]
	altB := []interface{}{b1, b2}[:lb]
	w.In(altA, altB).Return(7)
	args := make([]int, na)
	for i := 0; i < na; i++ {
		args[i] = verifInt(vTailN[i])
	}
	f := vStubFunc(w).(func(...int) int)
	got := f(args...)
	av, bv := [2]int{a1, a2}, [2]int{b1, b2}
	mA, mB := la == na, lb == na
	for i := 0; i < na && i < 2; i++ {
		if la == na {
			mA = verifAnd(mA, av[i] == args[i])
		}
		if lb == na {
			mB = verifAnd(mB, bv[i] == args[i])
		}
	}
	verifAssert((got == 7) == verifOr(mA, mB), "C04.variadic-in-lengths.membership")
	verifAssert(got == 7 || got == -1, "C04.variadic-in-lengths.result-is-configured")
	verifReached("C04.variadic-in-lengths")
}

// VC_C04_matches: conditions registered in bulk with Matches(pairs...) behave like the
// same When(...).Return(...) clauses: first match wins, otherwise the default - on every
// call, not only the first.
func VC_C04_matches() {
	vEnv()
	defer func() {
		if e := recover(); e != nil {
			verifAssert(false, "C04.matches.no-panic")
		}
	}()
	d := verifInt("default")
	w, err := CreateWhen(nil, vF2, nil, []interface{}{d}, false)
	verifAssert(err == nil, "C04.matches.create-ok")
	a1, b1, r1 := verifInt("a1"), verifInt("b1"), verifInt("r1")
	a2, b2, r2 := verifInt("a2"), verifInt("b2"), verifInt("r2")
	if verifBool("afterWhen") {
		// a condition registered the ordinary way first
		w.When(a1, b1).Return(r1)
		w.Matches(arg.Pair{Args: []interface{}{a2, b2}, Return: r2})
	} else {
		w.Matches(arg.Pair{Args: []interface{}{a1, b1}, Return: r1}, arg.Pair{Args: []interface{}{a2, b2}, Return: r2})
	}
	f := vStubFunc(w).(func(int, int) int)
	p, q := verifInt("p"), verifInt("q")
	want := d
	if p == a1 && q == b1 {
		want = r1
	} else if p == a2 && q == b2 {
		want = r2
	}
	for call := 0; call < 3; call++ {
		got, panicked := vCall2(f, p, q)
		verifAssert(!panicked, "C04.matches.no-panic")
		verifAssert(got == want, "C04.matches.first-match-else-default-on-every-call")
	}
	verifReached("C04.matches")
}

var vCallPN = [3]string{"p0", "p1", "p2"}
var vCallQN = [3]string{"q0", "q1", "q2"}

// VC_C04_call_history: two conditions (which may overlap) and a default; three calls
// with independent arguments: every call follows the first-registered-matching rule,
// whatever the calls before it matched.
func VC_C04_call_history() {
	vEnv()
	d := verifInt("default")
	w, err := CreateWhen(nil, vF2, nil, []interface{}{d}, false)
	verifAssert(err == nil, "C04.history.create-ok")
	// condition i: (x_i or Any, y_i or Any)
	var cx, cy [2]int
	var ax, ay [2]bool
	var res [2]int
	for i := 0; i < 2; i++ {
		cx[i], cy[i] = verifInt(vXN[i]), verifInt(vYN[i])
		ax[i], ay[i] = verifBool(vXN[i]+".any"), verifBool(vYN[i]+".any")
		res[i] = verifInt(vRN[i])
		var e1, e2 interface{} = cx[i], cy[i]
		if ax[i] {
			e1 = arg.Any()
		}
		if ay[i] {
			e2 = arg.Any()
		}
		w.When(e1, e2).Return(res[i])
	}
	f := vStubFunc(w).(func(int, int) int)
	for c := 0; c < 3; c++ {
		p, q := verifInt(vCallPN[c]), verifInt(vCallQN[c])
		got, panicked := vCall2(f, p, q)
		verifAssert(!panicked, "C04.history.no-panic")
		m0 := verifAnd(verifOr(ax[0], cx[0] == p), verifOr(ay[0], cy[0] == q))
		m1 := verifAnd(verifOr(ax[1], cx[1] == p), verifOr(ay[1], cy[1] == q))
		want := verifIte(m0, uint64(res[0]), verifIte(m1, uint64(res[1]), uint64(d)))
		verifAssert(uint64(got) == want, "C04.history.first-match-whatever-was-called-before")
	}
	verifReached("C04.history")
}

// VC_C04_variadic_in_typed: In on a purely variadic function whose alternatives are given
// as typed slices ([]int{...}), three of them with lengths 2, 1, 2: a call matches iff it
// equals one alternative element by element.
func VC_C04_variadic_in_typed() {
	vEnv()
	defer func() {
		if e := recover(); e != nil {
			verifAssert(false, "C04.variadic-in-typed.no-panic")
		}
	}()
	w, err := CreateWhen(nil, vFV, nil, []interface{}{-1}, false)
	verifAssert(err == nil, "C04.variadic-in-typed.create-ok")
	a1, a2, b1, c1, c2 := verifInt("a1"), verifInt("a2"), verifInt("b1"), verifInt("c1"), verifInt("c2")
	w.In([]int{a1, a2}, []int{b1}, []int{c1, c2}).Return(7)
	na := verifChoice("nargs", 4)
	args := make([]int, na)
	for i := 0; i < na; i++ {
		args[i] = verifInt(vTailN[i])
	}
	f := vStubFunc(w).(func(...int) int)
	got := f(args...)
	m := false
	switch na {
	case 1:
		m = b1 == args[0]
	case 2:
		m = verifOr(verifAnd(a1 == args[0], a2 == args[1]), verifAnd(c1 == args[0], c2 == args[1]))
	}
	verifAssert((got == 7) == m, "C04.variadic-in-typed.membership")
	verifAssert(got == 7 || got == -1, "C04.variadic-in-typed.result-is-configured")
	verifReached("C04.variadic-in-typed")
}

func vFP04(p *int, e error) int { return 0 }

type vErr04 struct{}

func (*vErr04) Error() string { return "e" }

// VC_C04_in_nil_alternative: nil among the alternatives of In (or arg.In inside When) for
// a pointer / interface parameter: a call passing nil there is a member, a call passing
// another listed value is a member, every other call is not.
func VC_C04_in_nil_alternative() {
	vEnv()
	defer func() {
		if e := recover(); e != nil {
			verifAssert(false, "C04.in-nil.no-panic")
		}
	}()
	x, y := 1, 2
	e1 := error(&vErr04{})
	w, err := CreateWhen(nil, vFP04, nil, []interface{}{-1}, false)
	verifAssert(err == nil, "C04.in-nil.create-ok")
	form := verifChoice("form", 3)
	switch form {
	case 0: // tuples of alternatives for both parameters
		w.In([]interface{}{nil, nil}, []interface{}{&x, e1}).Return(5)
	case 1: // arg.In for the first parameter, an exact second one
		w.When(arg.In(nil, &x), nil).Return(5)
	default: // arg.In for the interface parameter
		w.When(&x, arg.In(nil, e1)).Return(5)
	}
	ps := [3]*int{nil, &x, &y}
	es := [2]error{nil, e1}
	pi, ei := verifChoice("p", 3), verifChoice("e", 2)
	f := vStubFunc(w).(func(*int, error) int)
	got := f(ps[pi], es[ei])
	var member bool
	switch form {
	case 0:
		member = (pi == 0 && ei == 0) || (pi == 1 && ei == 1)
	case 1:
		member = pi <= 1 && ei == 0
	default:
		member = pi == 1
	}
	verifAssert((got == 5) == member, "C04.in-nil.membership")
	verifAssert(got == 5 || got == -1, "C04.in-nil.result-is-configured")
	verifReached("C04.in-nil")
}

type vNode04 struct {
	A int
	S string
}

func vFN04(p *vNode04, q *int) int { return 0 }

// VC_C04_pointer_arguments: conditions on pointer parameters compare what is pointed to
// (as arg.Equals does for every other kind): a call with another pointer to an equal value
// selects the condition, a pointer to a different value does not, nil matches only nil.
func VC_C04_pointer_arguments() {
	vEnv()
	defer func() {
		if e := recover(); e != nil {
			verifAssert(false, "C04.pointer.no-panic")
		}
	}()
	a, bb := verifInt("a"), verifInt("b")
	reg, regQ := &vNode04{A: a, S: "s"}, new(int)
	*regQ = 7
	w, err := CreateWhen(nil, vFN04, nil, []interface{}{-1}, false)
	verifAssert(err == nil, "C04.pointer.create-ok")
	if verifBool("viaIn") {
		w.In([]interface{}{reg, regQ}).Return(5)
	} else {
		w.When(reg, regQ).Return(5)
	}
	f := vStubFunc(w).(func(*vNode04, *int) int)
	q := new(int)
	*q = 7
	var got int
	var want bool
	switch verifChoice("call", 4) {
	case 0: // the registered pointers themselves
		got, want = f(reg, regQ), true
	case 1: // other pointers to equal values
		got, want = f(&vNode04{A: a, S: "s"}, q), true
	case 2: // a pointer to a different value
		got, want = f(&vNode04{A: bb, S: "s"}, q), a == bb
	default: // nil
		got, want = f(nil, q), false
	}
	verifAssert((got == 5) == want, "C04.pointer.condition-compares-pointees")
	verifAssert(got == 5 || got == -1, "C04.pointer.result-is-configured")
	verifReached("C04.pointer")
}

func vFE04(a int) (*int, error, []int) { return nil, nil, nil }

// VC_C04_eval: a When built with NewWhen and evaluated with Eval (the public way to use a
// stub without patching): the condition that matches selects the row, the default
// otherwise; results come back as the declared types hold them (nil pointer / nil error as
// untyped nil, a nil slice as a typed nil slice, everything else unaltered).
func VC_C04_eval() {
	vEnv()
	defer func() {
		if e := recover(); e != nil {
			verifAssert(false, "C04.eval.no-panic")
		}
	}()
	x := verifInt("x")
	c1, c2 := verifInt("c1"), verifInt("c2")
	e1 := errors.New("e1")
	w := NewWhen(reflect.TypeOf(vFE04))
	w.Return(nil, nil, nil)
	w.When(c1).Return(&x, e1, []int{x})
	w.When(c2).Return(&x, nil, []int(nil))
	a := verifInt("a")
	out := w.Eval(a)
	verifAssert(len(out) == 3, "C04.eval.one-value-per-result")
	if len(out) != 3 {
		return
	}
	s, isSlice := out[2].([]int)
	verifAssert(isSlice, "C04.eval.slice-result-keeps-its-type")
	switch {
	case a == c1:
		p, ok := out[0].(*int)
		verifAssert(ok && p == &x && out[1] == error(e1) && len(s) == 1 && s[0] == x, "C04.eval.first-matching-condition-selected")
	case a == c2:
		p, ok := out[0].(*int)
		verifAssert(ok && p == &x && out[1] == nil && s == nil, "C04.eval.second-condition-selected")
	default:
		verifAssert(out[0] == nil && out[1] == nil && s == nil, "C04.eval.default-otherwise")
	}
	verifReached("C04.eval")
}

func vF3(a, b, c int) int { return 0 }

// VC_C04_in_any_positions: In tuples with Any() at any position: the other elements
// still have to match.
func VC_C04_in_any_positions() {
	vEnv()
	defer func() {
		if e := recover(); e != nil {
			verifAssert(false, "C04.in-any.no-panic")
		}
	}()
	c0, c1, c2 := verifInt("c0"), verifInt("c1"), verifInt("c2")
	w, err := CreateWhen(nil, vF3, nil, []interface{}{-1}, false)
	verifAssert(err == nil, "C04.in-any.create-ok")
	pos := verifChoice("anyAt", 3)
	tuple := []interface{}{c0, c1, c2}
	tuple[pos] = arg.Any()
	w.In(tuple).Return(5)
	a0, a1, a2 := verifInt("a0"), verifInt("a1"), verifInt("a2")
	f := vStubFunc(w).(func(int, int, int) int)
	got := f(a0, a1, a2)
	m := verifAnd(verifOr(pos == 0, a0 == c0), verifAnd(verifOr(pos == 1, a1 == c1), verifOr(pos == 2, a2 == c2)))
	verifAssert((got == 5) == m, "C04.in-any.other-elements-still-compared")
	verifAssert(got == 5 || got == -1, "C04.in-any.result-is-configured")
	verifReached("C04.in-any")
}
