package main

// SSA interpreter over symbolic values. Structure follows golang.org/x/tools/go/ssa/interp.

import (
	"math"
	"fmt"
	"go/constant"
	"go/token"
	"go/types"
	"os"
	"strings"

	"golang.org/x/tools/go/ssa"
)

type fnInfo struct {
	idx map[ssa.Value]int
	n   int
}

type deferred struct {
	fn   Value
	args []Value
	site token.Pos
	tail *deferred
}

type frame struct {
	in        *Interp
	caller    *frame
	fn        *ssa.Function
	info      *fnInfo
	env       []Value
	block     *ssa.BasicBlock
	prev      *ssa.BasicBlock
	defers    *deferred
	result    Value
	panicking bool
	panicV    *goPanic
	cur       ssa.Instruction
	thread    *thread
	depth     int
	skip      int // when >0: enter block at instruction skip-1 (phis already set by a merge)
}

// path-control panics (never seen by interpreted code)
type pathEnd struct{ reason string }
type pathAbort struct{ reason string }

func (in *Interp) info(fn *ssa.Function) *fnInfo {
	if fi, ok := in.fnInfos[fn]; ok {
		return fi
	}
	fi := &fnInfo{idx: map[ssa.Value]int{}}
	add := func(v ssa.Value) {
		fi.idx[v] = fi.n
		fi.n++
	}
	for _, p := range fn.Params {
		add(p)
	}
	for _, fv := range fn.FreeVars {
		add(fv)
	}
	for _, b := range fn.Blocks {
		for _, ins := range b.Instrs {
			if v, ok := ins.(ssa.Value); ok {
				add(v)
			}
		}
	}
	in.fnInfos[fn] = fi
	return fi
}

func (fr *frame) site() string {
	if fr == nil || fr.cur == nil {
		return "?"
	}
	p := fr.fn.Prog.Fset.Position(fr.cur.Pos())
	if !p.IsValid() {
		return fr.fn.String()
	}
	return fmt.Sprintf("%s:%d (%s)", strings.TrimPrefix(p.Filename, "/repo/"), p.Line, fr.fn.Name())
}

func (fr *frame) get(v ssa.Value) Value {
	switch x := v.(type) {
	case *ssa.Const:
		return fr.in.constValue(x)
	case *ssa.Global:
		return fr.in.globalPtr(x)
	case *ssa.Function:
		return fr.in.funcValue(x)
	case *ssa.Builtin:
		return x
	}
	i, ok := fr.info.idx[v]
	if !ok {
		panic(fmt.Sprintf("get: no value for %s in %s", v.Name(), fr.fn))
	}
	return fr.env[i]
}

func (fr *frame) set(v ssa.Value, x Value) {
	fr.env[fr.info.idx[v]] = x
}

func (in *Interp) constValue(c *ssa.Const) Value {
	if v, ok := in.constCache[c]; ok {
		return v
	}
	v := in.constValue1(c)
	in.constCache[c] = v
	return v
}

func (in *Interp) constValue1(c *ssa.Const) Value {
	t := c.Type()
	if c.Value == nil {
		return zero(t)
	}
	if _, isIface := t.Underlying().(*types.Interface); isIface {
		return Iface{}
	}
	if w, signed, ok := intWidth(t); ok {
		if w == 0 {
			return Bool(constant.BoolVal(c.Value))
		}
		if signed {
			return BV(w, uint64(c.Int64()))
		}
		return BV(w, c.Uint64())
	}
	if isString(t) {
		if c.Value.Kind() == constant.String {
			return constant.StringVal(c.Value)
		}
		return string(rune(c.Int64()))
	}
	if isFloat(t) {
		f, _ := constant.Float64Val(constant.ToFloat(c.Value))
		return FloatV{f}
	}
	panic("const of type " + t.String())
}

func (in *Interp) globalPtr(g *ssa.Global) *Value {
	if p, ok := in.globals[g]; ok {
		return p
	}
	cell := new(Value)
	*cell = zero(g.Type().(*types.Pointer).Elem())
	in.globals[g] = cell
	return cell
}

func (in *Interp) funcValue(fn *ssa.Function) *FuncV {
	if f, ok := in.funcVals[fn]; ok {
		return f
	}
	// go/ssa may build the same synthetic function (thunk, wrapper, bound method) more than
	// once; one identity (code address) per name
	if fn.Synthetic != "" && fn.Parent() == nil {
		key := fn.String() + "|" + fn.Synthetic
		if in.synthByName == nil {
			in.synthByName = map[string]*ssa.Function{}
		}
		if first, ok := in.synthByName[key]; ok && first != fn {
			f := in.funcValue(first)
			in.funcVals[fn] = f
			return f
		}
		in.synthByName[key] = fn
	}
	// a method expression (*T).M compiles to a reference to the method's own symbol; go/ssa
	// wraps it in a "$thunk" with the receiver as first parameter. Give it the identity
	// (code address) of the method, the same one reflect's Method(i).Func has.
	if strings.HasPrefix(fn.Synthetic, "thunk for") && len(fn.Blocks) == 1 {
		for _, ins := range fn.Blocks[0].Instrs {
			if c, ok := ins.(*ssa.Call); ok {
				if callee := c.Call.StaticCallee(); callee != nil && callee.Signature.Recv() != nil && fn.Signature.Params().Len() > 0 {
					p0 := fn.Signature.Params().At(0).Type()
					if types.Identical(callee.Signature.Recv().Type(), p0) {
						f := in.methodFuncV(callee, fn.Signature)
						in.funcVals[fn] = f
						return f
					}
					// (*T).V for a value-receiver method V: the symbol is the compiler-generated
					// pointer-receiver wrapper, the one reflect's method table of *T points at
					if pt, ok := p0.(*types.Pointer); ok && types.Identical(pt.Elem(), callee.Signature.Recv().Type()) && callee.Object() != nil {
						ms := in.prog.MethodSets.MethodSet(p0)
						if sel := ms.Lookup(callee.Object().Pkg(), callee.Object().Name()); sel != nil {
							if w := in.prog.MethodValue(sel); w != nil {
								f := in.methodFuncV(w, fn.Signature)
								in.funcVals[fn] = f
								return f
							}
						}
					}
				}
			}
		}
	}
	in.nextFuncID++
	f := &FuncV{fn: fn, typ: fn.Signature, id: in.nextFuncID, name: fn.String()}
	in.funcVals[fn] = f
	return f
}

// ---- memory ----

func (in *Interp) setCell(p *Value, v Value) {
	if in.path != nil {
		in.path.undo = append(in.path.undo, undoEntry{p: p, old: *p})
	}
	*p = v
}

// storeInto writes v into the cell at p, in place for aggregates.
func (in *Interp) storeInto(p *Value, v Value) {
	switch x := v.(type) {
	case *Struct:
		if dst, ok := (*p).(*Struct); ok && dst != nil && len(dst.f) == len(x.f) {
			if dst == x {
				return
			}
			for i := range x.f {
				in.storeInto(&dst.f[i], x.f[i])
			}
			return
		}
		in.setCell(p, copyVal(v))
	case *ArrObj:
		if dst, ok := (*p).(*ArrObj); ok && dst != nil && len(dst.elems) == len(x.elems) {
			if dst == x {
				return
			}
			for i := range x.elems {
				in.storeInto(&dst.elems[i], x.elems[i])
			}
			return
		}
		in.setCell(p, copyVal(v))
	default:
		in.setCell(p, copyVal(v))
	}
}

func (in *Interp) nilDeref(fr *frame) {
	panic(&goPanic{val: "runtime error: invalid memory address or nil pointer dereference", kind: "nil", site: fr.site()})
}

// load reads a value of type t through pointer p.
func (in *Interp) load(fr *frame, p Value, t types.Type) Value {
	switch x := p.(type) {
	case *Value:
		if x == nil {
			in.nilDeref(fr)
		}
		in.raceAccess(fr, x, false)
		return copyVal(in.reinterpret(fr, *x, t))
	case ElemPtr:
		in.raceAccess(fr, &x.arr.elems[x.idx], false)
		return x.arr.elems[x.idx]
	case SymElemPtr:
		return in.symLoad(x)
	case ImgPtr:
		in.imgRace(fr, x.addr, false)
		return in.imgLoad(x.addr, 1)
	case CastPtr:
		return in.castLoad(fr, x, t)
	case nil:
		in.nilDeref(fr)
	}
	if t0, ok := p.(*Term); ok {
		// an integer word used as a pointer: the address of a known cell
		if obj := in.objAtAddr(t0); obj != nil {
			return in.load(fr, obj, t)
		}
	}
	panic(fmt.Sprintf("load through %T at %s", p, fr.site()))
}

func (in *Interp) store(fr *frame, p Value, v Value, t types.Type) {
	switch x := p.(type) {
	case *Value:
		if x == nil {
			in.nilDeref(fr)
		}
		in.raceAccess(fr, x, true)
		in.storeInto(x, v)
	case ElemPtr:
		in.raceAccess(fr, &x.arr.elems[x.idx], true)
		in.setCell(&x.arr.elems[x.idx], v)
	case SymElemPtr:
		in.symStore(x, v.(*Term))
	case ImgPtr:
		in.imgRace(fr, x.addr, true)
		in.imgStore(x.addr, v.(*Term))
	case CastPtr:
		in.castStore(fr, x, v, t)
	case nil:
		in.nilDeref(fr)
	default:
		panic(fmt.Sprintf("store through %T at %s", p, fr.site()))
	}
}

func (in *Interp) symLoad(x SymElemPtr) Value {
	var res *Term
	for i := x.n - 1; i >= 0; i-- {
		e := x.arr.elems[x.off+i].(*Term)
		if res == nil {
			res = e
			continue
		}
		res = Ite(Eq(x.idx, BV(64, uint64(i))), e, res)
	}
	if res == nil {
		panic("symLoad on empty range")
	}
	return res
}

func (in *Interp) symStore(x SymElemPtr, v *Term) {
	for i := 0; i < x.n; i++ {
		cell := &x.arr.elems[x.off+i]
		old := (*cell).(*Term)
		in.setCell(cell, Ite(Eq(x.idx, BV(64, uint64(i))), v, old))
	}
}

func (in *Interp) imgLoad(addr *Term, nbytes int) *Term {
	p := in.path
	var res *Term
	for i := nbytes - 1; i >= 0; i-- {
		b := Select(p.image, Add(addr, BV(64, uint64(i))))
		if res == nil {
			res = b
		} else {
			res = Concat(res, b)
		}
	}
	return res
}

func (in *Interp) imgStore(addr *Term, v *Term) {
	p := in.path
	n := v.w / 8
	for i := 0; i < n; i++ {
		b := Extract(v, 8*i+7, 8*i)
		a := Add(addr, BV(64, uint64(i)))
		p.image = Store(p.image, a, b)
		p.imgLog = append(p.imgLog, a)
		if !p.imgSeen[a] {
			if p.imgSeen == nil {
				p.imgSeen = map[*Term]bool{}
			}
			p.imgSeen[a] = true
			p.imgUniq = append(p.imgUniq, a)
		}
	}
	p.imgWrites++
}

// reinterpret adapts a raw cell value to the static type it is read as (unsafe casts).
func (in *Interp) reinterpret(fr *frame, v Value, t types.Type) Value {
	if t == nil {
		return v
	}
	if isReflectValueType(t) {
		if s, ok := v.(*Struct); ok && len(s.f) == 3 {
			return in.rvFromWords(fr, s)
		}
	}
	if st, ok := t.Underlying().(*types.Struct); ok && st.NumFields() == 2 {
		switch v.(type) {
		case Iface, FabIface:
			// hack.Iface / hack.Eface view of an interface value
			tab, data := in.ifaceWords(fr, v)
			return &Struct{f: []Value{tab, data}}
		}
	}
	switch t.Underlying().(type) {
	case *types.Slice:
		if s, ok := v.(*Struct); ok && len(s.f) == 3 {
			// reflect.SliceHeader{Data, Len, Cap} read as a slice: a window of the process image
			ln, ok1 := s.f[1].(*Term).SConst()
			cp, ok2 := s.f[2].(*Term).SConst()
			if !ok1 || !ok2 {
				panic(pathAbort{"unsupported: image slice with symbolic length at " + fr.site()})
			}
			return Slice{img: true, addr: s.f[0].(*Term), len: int(ln), cap: int(cp)}
		}
	}
	return v
}

func (in *Interp) castLoad(fr *frame, c CastPtr, t types.Type) Value {
	if rv := in.reflectCastLoad(fr, c, t); rv != nil {
		return rv
	}
	w, _, ok := intWidth(c.t)
	if ok && w >= 8 {
		n := w / 8
		switch p := c.p.(type) {
		case ElemPtr:
			var res *Term
			for i := n - 1; i >= 0; i-- {
				if p.idx+i >= len(p.arr.elems) {
					panic(pathAbort{"cast load out of range at " + fr.site()})
				}
				b := p.arr.elems[p.idx+i].(*Term)
				if res == nil {
					res = b
				} else {
					res = Concat(res, b)
				}
			}
			return res
		case ImgPtr:
			return in.imgLoad(p.addr, n)
		}
	}
	if pv, ok := c.p.(*Value); ok {
		if pv == nil {
			in.nilDeref(fr)
		}
		return copyVal(in.reinterpret(fr, *pv, c.t))
	}
	if ip, ok := c.p.(ImgPtr); ok {
		// pointer-sized loads from the image (e.g. *(*uintptr)(unsafe.Pointer(addr)))
		if _, isPtr := c.t.Underlying().(*types.Pointer); isPtr || isUnsafePtr(c.t) {
			return ImgPtr{addr: in.imgLoad(ip.addr, 8)}
		}
	}
	panic(pathAbort{fmt.Sprintf("unsupported: load of %s through cast of %T at %s", c.t, c.p, fr.site())})
}

func (in *Interp) castStore(fr *frame, c CastPtr, v Value, t types.Type) {
	if in.reflectCastStore(fr, c, v, t) {
		return
	}
	w, _, ok := intWidth(c.t)
	if ok && w >= 8 {
		n := w / 8
		tv := v.(*Term)
		switch p := c.p.(type) {
		case ElemPtr:
			for i := 0; i < n; i++ {
				if p.idx+i >= len(p.arr.elems) {
					panic(pathAbort{"cast store out of range at " + fr.site()})
				}
				in.setCell(&p.arr.elems[p.idx+i], Extract(tv, 8*i+7, 8*i))
			}
			return
		case ImgPtr:
			in.imgStore(p.addr, tv)
			return
		}
	}
	if pv, ok := c.p.(*Value); ok {
		if pv == nil {
			in.nilDeref(fr)
		}
		switch (*pv).(type) {
		case Iface, FabIface:
			if sv, ok := v.(*Struct); ok && len(sv.f) == 2 {
				// storing a hack.Iface over an interface variable
				in.setCell(pv, in.ifaceFromWords(fr, sv.f[0], sv.f[1]))
				return
			}
		}
		in.storeInto(pv, v)
		return
	}
	panic(pathAbort{fmt.Sprintf("unsupported: store of %s through cast of %T at %s", c.t, c.p, fr.site())})
}

// ---- running ----

const maxDepth = 400

func (in *Interp) callSSA(caller *frame, fn *ssa.Function, args []Value, env []Value) Value {
	if fn.Blocks == nil {
		panic(pathAbort{"unsupported: no body for " + fn.String()})
	}
	fi := in.info(fn)
	fr := &frame{in: in, caller: caller, fn: fn, info: fi, env: make([]Value, fi.n)}
	if caller != nil {
		fr.thread = caller.thread
		fr.depth = caller.depth + 1
		if fr.depth > maxDepth {
			same, rec := 0, fn
			cnt := map[*ssa.Function]int{}
			for c := caller; c != nil; c = c.caller {
				cnt[c.fn]++
				if cnt[c.fn] > same {
					same, rec = cnt[c.fn], c.fn
				}
			}
			if same >= 40 {
				// the same function 40 times on one stack with no symbolic decision left
				// to end it: the real program exhausts its stack (a fatal error, not a
				// recoverable panic)
				in.reportViolation(in.harness+".no-unbounded-recursion", "", caller.site(), "fatal",
					"unbounded recursion through "+rec.String()+" (stack exhaustion is a fatal error)", nil)
				panic(pathEnd{"unbounded recursion"})
			}
			panic(pathAbort{"call depth exceeded in " + fn.String()})
		}
	}
	if len(args) != len(fn.Params) {
		panic(fmt.Sprintf("callSSA %s: %d args for %d params", fn, len(args), len(fn.Params)))
	}
	for i, p := range fn.Params {
		fr.env[fi.idx[p]] = args[i]
	}
	for i, fv := range fn.FreeVars {
		fr.env[fi.idx[fv]] = env[i]
	}
	if fr.thread != nil {
		fr.thread.top = fr
	}
	fr.block = fn.Blocks[0]
	for fr.block != nil {
		in.runFrame(fr)
	}
	if fr.thread != nil {
		fr.thread.top = caller
	}
	return fr.result
}

func (in *Interp) runFrame(fr *frame) {
	defer func() {
		if fr.block == nil {
			return // normal return
		}
		r := recover()
		gp, ok := r.(*goPanic)
		if !ok {
			panic(r) // path control or engine bug: propagate
		}
		fr.panicking = true
		fr.panicV = gp
		fr.runDefers()
		fr.block = fr.fn.Recover
		if fr.block == nil {
			// recovered but no recover block: return zero results
			fr.result = zeroResults(fr.fn)
		}
	}()
	for {
		// phis first, simultaneously
		b := fr.block
		i := 0
		if fr.skip > 0 {
			i = fr.skip - 1
			fr.skip = 0
		} else if fr.prev != nil {
			var vals []Value
			for ; i < len(b.Instrs); i++ {
				phi, ok := b.Instrs[i].(*ssa.Phi)
				if !ok {
					break
				}
				for k, pred := range b.Preds {
					if pred == fr.prev {
						vals = append(vals, fr.get(phi.Edges[k]))
						break
					}
				}
			}
			for k := 0; k < i; k++ {
				fr.set(b.Instrs[k].(*ssa.Phi), vals[k])
			}
		}
		jumped := false
		for ; i < len(b.Instrs); i++ {
			ins := b.Instrs[i]
			fr.cur = ins
			in.path.steps++
			if in.path.steps > in.maxSteps {
				panic(pathAbort{"step budget exceeded"})
			}
			switch in.visit(fr, ins) {
			case kReturn:
				return
			case kJump:
				jumped = true
			}
			if jumped {
				break
			}
		}
		if !jumped {
			panic("block fell through: " + fr.fn.String())
		}
	}
}

func zeroResults(fn *ssa.Function) Value {
	res := fn.Signature.Results()
	switch res.Len() {
	case 0:
		return nil
	case 1:
		return zero(res.At(0).Type())
	}
	return zero(res)
}

func (fr *frame) runDefers() {
	for d := fr.defers; d != nil; d = d.tail {
		fr.runDefer(d)
	}
	fr.defers = nil
	if fr.panicking {
		panic(fr.panicV)
	}
}

func (fr *frame) runDefer(d *deferred) {
	ok := false
	defer func() {
		if !ok {
			r := recover()
			gp, isGo := r.(*goPanic)
			if !isGo {
				panic(r)
			}
			fr.panicking = true
			fr.panicV = gp
		}
	}()
	fr.in.call(fr, d.fn, d.args)
	ok = true
}

type cont int

const (
	kNext cont = iota
	kReturn
	kJump
)

func (in *Interp) visit(fr *frame, instr ssa.Instruction) cont {
	switch x := instr.(type) {
	case *ssa.DebugRef:
	case *ssa.UnOp:
		fr.set(x, in.unop(fr, x))
	case *ssa.BinOp:
		fr.set(x, in.binop(fr, x.Op, x.X.Type(), fr.get(x.X), fr.get(x.Y)))
	case *ssa.Call:
		fn, args := in.prepareCall(fr, &x.Call)
		fr.set(x, in.call(fr, fn, args))
	case *ssa.ChangeInterface:
		fr.set(x, fr.get(x.X))
	case *ssa.ChangeType:
		fr.set(x, fr.get(x.X))
	case *ssa.Convert:
		fr.set(x, in.convert(fr, x.X.Type(), x.Type(), fr.get(x.X)))
	case *ssa.MultiConvert:
		fr.set(x, in.convert(fr, x.X.Type(), x.Type(), fr.get(x.X)))
	case *ssa.SliceToArrayPointer:
		panic(pathAbort{"unsupported: SliceToArrayPointer"})
	case *ssa.MakeInterface:
		fr.set(x, Iface{t: x.X.Type(), v: fr.get(x.X)})
	case *ssa.Extract:
		fr.set(x, fr.get(x.Tuple).(Tuple)[x.Index])
	case *ssa.Slice:
		fr.set(x, in.sliceOp(fr, x))
	case *ssa.Return:
		switch len(x.Results) {
		case 0:
		case 1:
			fr.result = fr.get(x.Results[0])
		default:
			res := make(Tuple, len(x.Results))
			for i, r := range x.Results {
				res[i] = fr.get(r)
			}
			fr.result = res
		}
		fr.block = nil
		return kReturn
	case *ssa.RunDefers:
		fr.runDefers()
	case *ssa.Panic:
		panic(&goPanic{val: fr.get(x.X), kind: "explicit", site: fr.site()})
	case *ssa.Store:
		in.store(fr, fr.get(x.Addr), fr.get(x.Val), x.Val.Type())
	case *ssa.If:
		c := fr.get(x.Cond).(*Term)
		succ := 1
		if c == TrueT {
			succ = 0
		} else if c != FalseT {
			if in.tryMerge(fr, x, c) {
				return kJump
			}
			if in.branch(c, fr) {
				succ = 0
			}
		}
		fr.prev, fr.block = fr.block, fr.block.Succs[succ]
		return kJump
	case *ssa.Jump:
		fr.prev, fr.block = fr.block, fr.block.Succs[0]
		return kJump
	case *ssa.Defer:
		fn, args := in.prepareCall(fr, &x.Call)
		fr.defers = &deferred{fn: fn, args: args, site: x.Pos(), tail: fr.defers}
	case *ssa.Go:
		panic(pathAbort{"unsupported: go statement at " + fr.site()})
	case *ssa.MakeChan, *ssa.Send, *ssa.Select:
		panic(pathAbort{"unsupported: channels at " + fr.site()})
	case *ssa.Alloc:
		cell := new(Value)
		*cell = zero(x.Type().Underlying().(*types.Pointer).Elem())
		fr.set(x, cell)
	case *ssa.MakeSlice:
		ln, ok := fr.get(x.Len).(*Term).SConst()
		cp, ok2 := fr.get(x.Cap).(*Term).SConst()
		if !ok || !ok2 {
			panic(pathAbort{"unsupported: make([]T, symbolic) at " + fr.site()})
		}
		if ln < 0 || cp < ln || cp > 1<<24 {
			panic(&goPanic{val: "runtime error: makeslice: len out of range", kind: "slice", site: fr.site()})
		}
		et := x.Type().Underlying().(*types.Slice).Elem()
		a := newArr(int(cp))
		z := zero(et)
		for i := range a.elems {
			if isScalarElem(et) {
				a.elems[i] = z
			} else {
				a.elems[i] = zero(et)
			}
		}
		fr.set(x, Slice{arr: a, len: int(ln), cap: int(cp)})
	case *ssa.MakeMap:
		in.nextMapID++
		fr.set(x, &MapV{id: in.nextMapID})
	case *ssa.Range:
		fr.set(x, in.rangeIter(fr, fr.get(x.X)))
	case *ssa.Next:
		fr.set(x, in.next(fr, x, fr.get(x.Iter).(*iterV)))
	case *ssa.FieldAddr:
		fr.set(x, in.fieldAddr(fr, fr.get(x.X), x.Field, x.X.Type()))
	case *ssa.Field:
		v := fr.get(x.X)
		switch s := v.(type) {
		case *Struct:
			fr.set(x, copyVal(s.f[x.Field]))
		default:
			fr.set(x, in.reflectField(fr, v, x.Field, x.X.Type()))
		}
	case *ssa.IndexAddr:
		fr.set(x, in.indexAddr(fr, x))
	case *ssa.Index:
		fr.set(x, in.indexVal(fr, x))
	case *ssa.Lookup:
		fr.set(x, in.lookup(fr, x))
	case *ssa.MapUpdate:
		m := fr.get(x.Map).(*MapV)
		if m == nil {
			panic(&goPanic{val: "assignment to entry in nil map", kind: "nilmap", site: fr.site()})
		}
		in.mapSet(fr, m, fr.get(x.Key), copyVal(fr.get(x.Value)))
	case *ssa.TypeAssert:
		fr.set(x, in.typeAssert(fr, x))
	case *ssa.MakeClosure:
		bindings := make([]Value, len(x.Bindings))
		for i, b := range x.Bindings {
			bindings[i] = fr.get(b)
		}
		in.nextFuncID++
		fn := x.Fn.(*ssa.Function)
		fr.set(x, &FuncV{fn: fn, env: bindings, typ: fn.Signature, id: in.nextFuncID, name: fn.String()})
	case *ssa.Phi:
		// handled at block entry; a phi reached here means entry block (no prev)
		panic("phi in entry block")
	default:
		panic(fmt.Sprintf("unexpected instruction %T", instr))
	}
	return kNext
}

func (in *Interp) prepareCall(fr *frame, c *ssa.CallCommon) (Value, []Value) {
	var args []Value
	var fn Value
	if c.Method == nil {
		fn = fr.get(c.Value)
	} else {
		recv := fr.get(c.Value)
		ifc, ok := recv.(Iface)
		if !ok {
			panic(fmt.Sprintf("invoke on %T at %s", recv, fr.site()))
		}
		if ifc.t == nil {
			in.nilDeref(fr)
		}
		if nf := in.nativeMethod(ifc, c.Method); nf != nil {
			fn = nf
		} else {
			m := in.lookupMethod(ifc.t, c.Method.Pkg(), c.Method.Name())
			if m == nil {
				panic(fmt.Sprintf("method %s not found on %s at %s", c.Method.Name(), ifc.t, fr.site()))
			}
			fn = in.funcValue(m)
		}
		args = append(args, ifc.v)
	}
	for _, a := range c.Args {
		args = append(args, fr.get(a))
	}
	return fn, args
}

func (in *Interp) call(fr *frame, fnv Value, args []Value) Value {
	switch f := fnv.(type) {
	case *ssa.Builtin:
		return in.builtin(fr, f, args)
	case *FuncV:
		if f == nil {
			in.nilDeref(fr)
		}
		if f.native != nil {
			return f.native(in, fr, args)
		}
		if f.makeFuncImpl != nil {
			return in.callMakeFunc(fr, f, args)
		}
		return in.callFn(fr, f.fn, args, f.env)
	case *ssa.Function:
		return in.callFn(fr, f, args, nil)
	}
	panic(fmt.Sprintf("call of %T at %s", fnv, fr.site()))
}

func (in *Interp) callFn(fr *frame, fn *ssa.Function, args []Value, env []Value) Value {
	name := fn.String()
	if in.initMode && in.skipInInit(fn) {
		return zeroResults(fn)
	}
	if h, ok := in.intrinsics[fn.Name()]; ok && in.isHarnessFn(fn) {
		return h(in, fr, args)
	}
	if r, ok := in.reroute[name]; ok && !in.inReroute(fr, r) {
		in.noteStub(name + " -> harness " + r.Name())
		return in.callSSA(fr, r, args, nil)
	}
	if st, ok := in.stubs[name]; ok {
		in.noteStub(name)
		return st(in, fr, args)
	}
	if !in.interpretable(fn) {
		panic(pathAbort{"unsupported callee: " + name + " at " + fr.site()})
	}
	in.noteFn(fn)
	return in.callSSA(fr, fn, args, env)
}

// inReroute reports whether we are already inside the harness stub r (so that the stub
// itself may call the real function).
func (in *Interp) inReroute(fr *frame, r *ssa.Function) bool {
	for f := fr; f != nil; f = f.caller {
		if f.fn == r {
			return true
		}
		if !in.isHarnessFn(f.fn) {
			// the call comes from code under test that the stub (further up) has called
			// into: that code sees the stub again, like any other caller
			return false
		}
	}
	return false
}

func (in *Interp) isHarnessFn(fn *ssa.Function) bool {
	if fn.Pkg == nil {
		return false
	}
	p := fn.Prog.Fset.Position(fn.Pos())
	return strings.Contains(p.Filename, "zz_verif")
}

func (in *Interp) interpretable(fn *ssa.Function) bool {
	if fn.Blocks == nil {
		return false
	}
	pkg := fn.Package()
	if pkg == nil {
		// synthetic wrappers/bound methods/instantiations: judge by origin or object
		if o := fn.Origin(); o != nil && o.Package() != nil {
			pkg = o.Package()
		} else if fn.Object() != nil && fn.Object().Pkg() != nil {
			return in.pkgAllowed(fn.Object().Pkg().Path())
		} else {
			return true
		}
	}
	return in.pkgAllowed(pkg.Pkg.Path())
}

var allowedStd = map[string]bool{
	"errors": true, "encoding/binary": true, "bytes": true, "sort": true, "math/bits": true,
	"unicode/utf8": true, "internal/itoa": true, "encoding/hex": true, "container/list": true,
	"internal/byteorder": true, "slices": true, "cmp": true, "debug/gosym": true,
}

func (in *Interp) pkgAllowed(path string) bool {
	if strings.HasPrefix(path, "github.com/tencent/goom") {
		return true
	}
	return allowedStd[path]
}

func (in *Interp) noteFn(fn *ssa.Function) {
	if in.fnsSeen != nil {
		in.fnsSeen[fn.String()]++
	}
}
func (in *Interp) noteStub(name string) {
	if in.stubsSeen != nil {
		in.stubsSeen[name]++
	}
}

// ---- operators ----

func (in *Interp) unop(fr *frame, x *ssa.UnOp) Value {
	v := fr.get(x.X)
	switch x.Op {
	case token.MUL:
		return in.load(fr, v, x.Type())
	case token.NOT:
		return BNot(v.(*Term))
	case token.SUB:
		switch t := v.(type) {
		case *Term:
			return Neg(t)
		case FloatV:
			return FloatV{-t.v}
		}
	case token.XOR:
		return Not(v.(*Term))
	case token.ARROW:
		panic(pathAbort{"unsupported: channel receive"})
	}
	panic(fmt.Sprintf("unop %s on %T", x.Op, v))
}

func (in *Interp) divCheck(fr *frame, y *Term) {
	z := Eq(y, BV(y.w, 0))
	if z == FalseT {
		return
	}
	if z == TrueT || in.branch(z, fr) {
		panic(&goPanic{val: "runtime error: integer divide by zero", kind: "div", site: fr.site()})
	}
}

func (in *Interp) shiftCount(fr *frame, x, y *Term, ySigned bool) (*Term, *Term) {
	// returns y resized to x's width and a bool "count >= width"
	if ySigned {
		neg := Slt(y, BV(y.w, 0))
		if neg != FalseT {
			if neg == TrueT || in.branch(neg, fr) {
				panic(&goPanic{val: "runtime error: negative shift amount", kind: "shift", site: fr.site()})
			}
		}
	}
	var big *Term
	if y.w > x.w {
		big = Uge(y, BV(y.w, uint64(x.w)))
		y = Extract(y, x.w-1, 0)
	} else {
		y = ZExt(y, x.w)
		big = FalseT
	}
	return y, big
}

func (in *Interp) binop(fr *frame, op token.Token, t types.Type, xv, yv Value) Value {
	switch x := xv.(type) {
	case *Term:
		y, ok := yv.(*Term)
		if !ok {
			break
		}
		if x.w == 0 {
			switch op {
			case token.EQL:
				return BEq(x, y)
			case token.NEQ:
				return BNot(BEq(x, y))
			case token.AND:
				return BAnd(x, y)
			case token.OR:
				return BOr(x, y)
			}
			panic("bool binop " + op.String())
		}
		_, signed, _ := intWidth(t)
		switch op {
		case token.ADD:
			return Add(x, y)
		case token.SUB:
			return Sub(x, y)
		case token.MUL:
			return Mul(x, y)
		case token.QUO:
			in.divCheck(fr, y)
			if signed {
				return SDiv(x, y)
			}
			return UDiv(x, y)
		case token.REM:
			in.divCheck(fr, y)
			if signed {
				return SRem(x, y)
			}
			return URem(x, y)
		case token.AND:
			return And(x, y)
		case token.OR:
			return Or(x, y)
		case token.XOR:
			return Xor(x, y)
		case token.AND_NOT:
			return And(x, Not(y))
		case token.SHL, token.SHR:
			// y's signedness is unknown here (type of x only); negative counts are
			// handled by the caller via shiftSigned
			yy, big := in.shiftCount(fr, x, y, false)
			var r, over *Term
			if op == token.SHL {
				r, over = Shl(x, yy), BV(x.w, 0)
			} else if signed {
				r, over = AShr(x, yy), AShr(x, BV(x.w, uint64(x.w-1)))
			} else {
				r, over = LShr(x, yy), BV(x.w, 0)
			}
			return Ite(big, over, r)
		case token.EQL:
			return Eq(x, y)
		case token.NEQ:
			return Ne(x, y)
		case token.LSS:
			if signed {
				return Slt(x, y)
			}
			return Ult(x, y)
		case token.LEQ:
			if signed {
				return Sle(x, y)
			}
			return Ule(x, y)
		case token.GTR:
			if signed {
				return Slt(y, x)
			}
			return Ult(y, x)
		case token.GEQ:
			if signed {
				return Sle(y, x)
			}
			return Ule(y, x)
		}
	case string:
		y, ok := yv.(string)
		if !ok {
			if sy, isSym := yv.(*SymStr); isSym {
				if op == token.ADD {
					return symConcat(xv, yv)
				}
				return in.symStrBinop(fr, op, x, sy)
			}
			break
		}
		switch op {
		case token.ADD:
			return x + y
		case token.EQL:
			return Bool(x == y)
		case token.NEQ:
			return Bool(x != y)
		case token.LSS:
			return Bool(x < y)
		case token.LEQ:
			return Bool(x <= y)
		case token.GTR:
			return Bool(x > y)
		case token.GEQ:
			return Bool(x >= y)
		}
	case *SymStr:
		if op == token.ADD {
			return symConcat(xv, yv)
		}
		if ys, ok := yv.(string); ok {
			return in.symStrBinop(fr, op, ys, x)
		}
		if ys, ok := yv.(*SymStr); ok && (op == token.EQL || op == token.NEQ) {
			r := in.equal(fr, x, ys)
			if op == token.NEQ {
				r = BNot(r)
			}
			return r
		}
	case FloatSym:
		if op == token.EQL || op == token.NEQ {
			r := in.equal(fr, xv, yv)
			if op == token.NEQ {
				r = BNot(r)
			}
			return r
		}
		panic(pathAbort{"unsupported: arithmetic/ordering on float64(symbolic int) at " + fr.site()})
	case FloatV:
		if _, isSym := yv.(FloatSym); isSym && (op == token.EQL || op == token.NEQ) {
			r := in.equal(fr, xv, yv)
			if op == token.NEQ {
				r = BNot(r)
			}
			return r
		}
		y, ok := yv.(FloatV)
		if !ok {
			break
		}
		switch op {
		case token.ADD:
			return FloatV{x.v + y.v}
		case token.SUB:
			return FloatV{x.v - y.v}
		case token.MUL:
			return FloatV{x.v * y.v}
		case token.QUO:
			return FloatV{x.v / y.v}
		case token.EQL:
			return Bool(x.v == y.v)
		case token.NEQ:
			return Bool(x.v != y.v)
		case token.LSS:
			return Bool(x.v < y.v)
		case token.LEQ:
			return Bool(x.v <= y.v)
		case token.GTR:
			return Bool(x.v > y.v)
		case token.GEQ:
			return Bool(x.v >= y.v)
		}
	}
	switch op {
	case token.EQL:
		return in.equal(fr, xv, yv)
	case token.NEQ:
		return BNot(in.equal(fr, xv, yv))
	case token.ADD:
		if _, ok := yv.(*SymStr); ok {
			return symConcat(xv, yv)
		}
	}
	panic(fmt.Sprintf("binop %s on %T, %T at %s", op, xv, yv, fr.site()))
}

func (in *Interp) symStrBinop(fr *frame, op token.Token, c string, s *SymStr) Value {
	if op != token.EQL && op != token.NEQ {
		panic(pathAbort{"unsupported: ordering on symbolic string"})
	}
	r := in.symStrEq(fr, s, c)
	if op == token.NEQ {
		return BNot(r)
	}
	return r
}

// i2f64bits: IEEE-754 double bits of float64(x) for a 64-bit integer term (signed or
// unsigned), round to nearest even, as a bit-vector circuit (no FP theory needed).
func i2f64bits(x *Term, signed bool) *Term {
	zero := BV(64, 0)
	sign := zero
	mag := x
	if signed {
		neg := Slt(x, zero)
		mag = Ite(neg, Neg(x), x)
		sign = Ite(neg, BV(64, 1<<63), zero)
	}
	// count leading zeros by binary search, normalising as we go
	lz := zero
	n := mag
	for _, k := range []uint64{32, 16, 8, 4, 2, 1} {
		top := LShr(n, BV(64, 64-k))
		z := Eq(top, zero)
		n = Ite(z, Shl(n, BV(64, k)), n)
		lz = Ite(z, Add(lz, BV(64, k)), lz)
	}
	// n has its leading one at bit 63 (for mag != 0)
	mant := And(LShr(n, BV(64, 11)), BV(64, (1<<52)-1))
	rem := And(n, BV(64, 0x7FF))
	lsb := And(LShr(n, BV(64, 11)), BV(64, 1))
	up := BOr(Ugt(rem, BV(64, 0x400)), BAnd(Eq(rem, BV(64, 0x400)), Eq(lsb, BV(64, 1))))
	exp := Sub(BV(64, 1023+63), lz)
	bits := Add(Add(Shl(exp, BV(64, 52)), mant), Ite(up, BV(64, 1), zero))
	return Ite(Eq(mag, zero), zero, Or(bits, sign))
}

// equal implements == on arbitrary values, returning a boolean term.
func (in *Interp) equal(fr *frame, a, b Value) *Term {
	switch x := a.(type) {
	case nil:
		return Bool(isNilValue(b))
	case *Term:
		if y, ok := b.(*Term); ok {
			return Eq(x, y)
		}
		// an integer word read as a pointer (unsafe retyping) against a real pointer: equal
		// to nil iff zero; never equal to the address of a heap cell (cell addresses are not
		// modelled; a data word that happens to equal one is outside every claim)
		if x.w == 64 {
			switch y := b.(type) {
			case *Value:
				if y == nil {
					return Eq(x, BV(64, 0))
				}
				// the address of a cell that was converted to an integer earlier
				if obj := in.objAtAddr(x); obj != nil {
					if p, ok := obj.(*Value); ok {
						return Bool(p == y)
					}
				}
				return FalseT
			case CastPtr:
				return in.equal(fr, a, y.p)
			}
		}
	case string:
		if y, ok := b.(string); ok {
			return Bool(x == y)
		}
		if y, ok := b.(*SymStr); ok {
			return in.symStrEq(fr, y, x)
		}
	case *SymStr:
		if y, ok := b.(string); ok {
			return in.symStrEq(fr, x, y)
		}
		if y, ok := b.(*SymStr); ok {
			if x == y {
				return TrueT
			}
			return in.seqEqSeq(fr, x, y)
		}
	case FloatV:
		if y, ok := b.(FloatV); ok {
			return Bool(x.v == y.v)
		}
		if y, ok := b.(FloatSym); ok {
			return in.equal(fr, y, x)
		}
	case FloatSym:
		// values converted from integers are never NaN and never -0: float equality is
		// equality of the bit patterns
		switch y := b.(type) {
		case FloatSym:
			return Eq(x.bits, y.bits)
		case FloatV:
			if y.v != y.v {
				return FalseT
			}
			f := y.v
			if f == 0 {
				f = 0 // -0 == +0
			}
			return Eq(x.bits, BV(64, math.Float64bits(f)))
		}
	case *Value:
		switch y := b.(type) {
		case *Value:
			return Bool(x == y)
		case nil:
			return Bool(x == nil)
		case CastPtr:
			return in.equal(fr, a, y.p)
		default:
			return FalseT
		}
	case CastPtr:
		if y, ok := b.(CastPtr); ok {
			return in.equal(fr, x.p, y.p)
		}
		return in.equal(fr, x.p, b)
	case ElemPtr:
		if y, ok := b.(ElemPtr); ok {
			return Bool(x == y)
		}
		if cp, ok := b.(CastPtr); ok {
			return in.equal(fr, a, cp.p)
		}
		return FalseT
	case ImgPtr:
		if y, ok := b.(ImgPtr); ok {
			return Eq(x.addr, y.addr)
		}
		if isNilPtr(b) {
			return Eq(x.addr, BV(64, 0))
		}
		if cp, ok := b.(CastPtr); ok {
			return in.equal(fr, a, cp.p)
		}
		return FalseT
	case *FuncV:
		if y, ok := b.(*FuncV); ok {
			return Bool(x == y)
		}
		if b == nil {
			return Bool(x == nil)
		}
	case *MapV:
		if y, ok := b.(*MapV); ok {
			return Bool(x == y)
		}
		if b == nil {
			return Bool(x == nil)
		}
	case Slice:
		if y, ok := b.(Slice); ok {
			if x.nilS || y.nilS {
				return Bool(x.nilS == y.nilS && (x.nilS || false))
			}
		}
		if b == nil {
			return Bool(x.nilS)
		}
	case FabIface:
		switch y := b.(type) {
		case FabIface:
			return BAnd(in.equal(fr, x.tab, y.tab), in.equal(fr, x.data, y.data))
		case Iface:
			return FalseT
		case nil:
			return FalseT
		}
	case Iface:
		if _, isFab := b.(FabIface); isFab {
			return FalseT
		}
		y, ok := b.(Iface)
		if !ok {
			if b == nil {
				return Bool(x.t == nil)
			}
			break
		}
		if x.t == nil || y.t == nil {
			return Bool(x.t == nil && y.t == nil)
		}
		if !types.Identical(x.t, y.t) {
			return FalseT
		}
		if !types.Comparable(x.t) {
			panic(&goPanic{val: "runtime error: comparing uncomparable type " + x.t.String(), kind: "uncomparable", site: fr.site()})
		}
		return in.equal(fr, x.v, y.v)
	case *Struct:
		if y, ok := b.(*Struct); ok {
			r := TrueT
			for i := range x.f {
				r = BAnd(r, in.equal(fr, x.f[i], y.f[i]))
			}
			return r
		}
	case *ArrObj:
		if y, ok := b.(*ArrObj); ok {
			r := TrueT
			for i := range x.elems {
				r = BAnd(r, in.equal(fr, x.elems[i], y.elems[i]))
			}
			return r
		}
	case *RType:
		if y, ok := b.(*RType); ok {
			return Bool(types.Identical(x.t, y.t))
		}
	}
	panic(fmt.Sprintf("equal on %T, %T at %s", a, b, fr.site()))
}

func isNilValue(v Value) bool {
	switch x := v.(type) {
	case nil:
		return true
	case *Value:
		return x == nil
	case *FuncV:
		return x == nil
	case *MapV:
		return x == nil
	case Slice:
		return x.nilS
	case Iface:
		return x.t == nil
	case FabIface:
		return false
	case CastPtr:
		return isNilValue(x.p)
	}
	return false
}

// ---- conversions ----

func (in *Interp) convert(fr *frame, src, dst types.Type, v Value) Value {
	us, ud := src.Underlying(), dst.Underlying()
	// integer <-> integer
	if sw, ssigned, ok := intWidth(src); ok && sw > 0 {
		if dw, _, ok2 := intWidth(dst); ok2 && dw > 0 {
			return Resize(v.(*Term), dw, ssigned)
		}
		if isString(dst) {
			c, ok := v.(*Term).Const()
			if !ok {
				panic(pathAbort{"unsupported: string(symbolic rune)"})
			}
			return string(rune(c))
		}
		if isFloat(dst) {
			c, ok := v.(*Term).SConst()
			if !ok {
				if b, isB := ud.(*types.Basic); isB && b.Kind() == types.Float64 {
					// float64(symbolic integer): the IEEE-754 bits as a bit-vector circuit
					sw, _, _ := intWidth(src)
					return FloatSym{bits: i2f64bits(Resize(v.(*Term), 64, ssigned), ssigned && sw <= 64)}
				}
				panic(pathAbort{"unsupported: float32(symbolic int) at " + fr.site()})
			}
			if !ssigned {
				u, _ := v.(*Term).Const()
				return FloatV{float64(u)}
			}
			return FloatV{float64(c)}
		}
		if isUnsafePtr(dst) {
			// uintptr -> unsafe.Pointer: an address in the process image (or a known object)
			t := v.(*Term)
			if obj := in.objAtAddr(t); obj != nil {
				return obj
			}
			if c, ok := t.Const(); ok && c == 0 {
				return (*Value)(nil)
			}
			return ImgPtr{addr: t}
		}
	}
	if isFloat(src) {
		f := v.(FloatV)
		if isFloat(dst) {
			if b, ok := ud.(*types.Basic); ok && b.Kind() == types.Float32 {
				return FloatV{float64(float32(f.v))}
			}
			return f
		}
		if dw, dsigned, ok := intWidth(dst); ok {
			if dsigned {
				return BV(dw, uint64(int64(f.v)))
			}
			return BV(dw, uint64(f.v))
		}
	}
	if isString(src) {
		if sl, ok := ud.(*types.Slice); ok {
			s, isC := v.(string)
			if !isC {
				panic(pathAbort{"unsupported: []byte(symbolic string)"})
			}
			if b, ok := sl.Elem().Underlying().(*types.Basic); ok && b.Kind() == types.Uint8 {
				a := newArr(len(s))
				for i := 0; i < len(s); i++ {
					a.elems[i] = BV(8, uint64(s[i]))
				}
				return Slice{arr: a, len: len(s), cap: len(s)}
			}
			rs := []rune(s)
			a := newArr(len(rs))
			for i, r := range rs {
				a.elems[i] = BV(32, uint64(r))
			}
			return Slice{arr: a, len: len(rs), cap: len(rs)}
		}
		if isString(dst) {
			return v
		}
	}
	if _, ok := us.(*types.Slice); ok && isString(dst) {
		s := v.(Slice)
		bs := make([]byte, s.len)
		for i := 0; i < s.len; i++ {
			e := in.sliceGet(fr, s, i)
			c, ok := e.(*Term).Const()
			if !ok {
				return &SymStr{tag: "bytes", args: []Value{v}}
			}
			bs[i] = byte(c)
		}
		return string(bs)
	}
	// pointer <-> unsafe.Pointer
	if isUnsafePtr(dst) {
		if _, ok := us.(*types.Pointer); ok {
			return v
		}
		if isUnsafePtr(src) {
			return v
		}
	}
	if isUnsafePtr(src) {
		if pt, ok := ud.(*types.Pointer); ok {
			return in.castFromUnsafe(fr, v, pt.Elem())
		}
		if dw, _, ok := intWidth(dst); ok && dw == wordBits {
			return in.addrOf(fr, v)
		}
	}
	if _, ok := us.(*types.Pointer); ok {
		if _, ok2 := ud.(*types.Pointer); ok2 {
			return v
		}
	}
	if _, ok := us.(*types.Slice); ok {
		if _, ok2 := ud.(*types.Slice); ok2 {
			return v
		}
	}
	panic(pathAbort{fmt.Sprintf("unsupported: convert %s -> %s at %s", src, dst, fr.site())})
}

// castFromUnsafe gives the pointer value for (*T)(unsafePointer).
func (in *Interp) castFromUnsafe(fr *frame, v Value, elem types.Type) Value {
	switch p := v.(type) {
	case ElemPtr:
		if w, _, ok := intWidth(elem); ok && w == 8 {
			return p
		}
		return CastPtr{p: p, t: elem}
	case SymElemPtr:
		return p
	case ImgPtr:
		if w, _, ok := intWidth(elem); ok && w == 8 {
			return p
		}
		return CastPtr{p: p, t: elem}
	case CastPtr:
		return in.castFromUnsafe(fr, p.p, elem)
	case *Value:
		if p == nil {
			return p
		}
		if in.needsCast(*p, elem) {
			return CastPtr{p: p, t: elem}
		}
		return p
	case *FuncV:
		// pointer to a funcval: viewing its first word (code pointer)
		return CastPtr{p: p, t: elem}
	case nil:
		return (*Value)(nil)
	}
	if _, isMap := v.(*MapV); isMap {
		if _, isStruct := elem.Underlying().(*types.Struct); isStruct {
			// the data word of a map is the runtime's map header: viewing it as some other
			// struct (and writing through it) corrupts the map. No model can follow that;
			// it is reported as a memory-safety violation of the path.
			in.reportViolation(in.harness+".no-type-confused-memory-access", "", fr.site(), "memsafety",
				fmt.Sprintf("a map's header is viewed as *%s through unsafe.Pointer", elem), nil)
			panic(pathEnd{"type-confused access"})
		}
	}
	panic(pathAbort{fmt.Sprintf("unsupported: cast of %T to *%s at %s", v, elem, fr.site())})
}

func (in *Interp) needsCast(cell Value, elem types.Type) bool {
	switch cell.(type) {
	case *RValue:
		if isReflectValueType(elem) {
			return false
		}
		return true
	case *Struct:
		_, isSlice := elem.Underlying().(*types.Slice)
		return isSlice
	case Slice:
		_, isStruct := elem.Underlying().(*types.Struct)
		return isStruct
	case *FuncV:
		_, isSig := elem.Underlying().(*types.Signature)
		return !isSig
	case Iface, FabIface:
		_, isI := elem.Underlying().(*types.Interface)
		return !isI
	}
	return false
}

// addrOf gives the numeric address of what an unsafe.Pointer points at.
func (in *Interp) addrOf(fr *frame, v Value) *Term {
	switch p := v.(type) {
	case ImgPtr:
		return p.addr
	case CastPtr:
		return in.addrOf(fr, p.p)
	case *FuncV:
		if p == nil {
			return BV(64, 0)
		}
		return in.funcAddr(p)
	case *Value:
		if p == nil {
			return BV(64, 0)
		}
		return in.cellAddr(p)
	case ElemPtr:
		base := in.arrAddr(p.arr)
		return Add(base, BV(64, uint64(p.idx)))
	case *MapV:
		if p == nil {
			return BV(64, 0)
		}
		return in.cellAddr(&p.rc)
	case Slice:
		if p.nilS {
			return BV(64, 0)
		}
		if p.img {
			return p.addr
		}
		if p.arr != nil {
			return Add(in.arrAddr(p.arr), BV(64, uint64(p.off)))
		}
		return BV(64, 0)
	case nil:
		return BV(64, 0)
	}
	panic(pathAbort{fmt.Sprintf("unsupported: uintptr(%T) at %s", v, fr.site())})
}

func (in *Interp) fieldAddr(fr *frame, pv Value, field int, pt types.Type) Value {
	switch p := pv.(type) {
	case *Value:
		if p == nil {
			in.nilDeref(fr)
		}
		switch s := (*p).(type) {
		case *Struct:
			return &s.f[field]
		case *RValue:
			return CastPtr{p: rvField{cell: p, field: field}, t: nil}
		}
		return in.reflectFieldAddr(fr, p, field, pt)
	case CastPtr:
		return in.castFieldAddr(fr, p, field, pt)
	case ImgPtr:
		// struct overlaid on raw memory: field at byte offset
		st := pt.Underlying().(*types.Pointer).Elem().Underlying().(*types.Struct)
		off := in.fieldOffset(st, field)
		return CastPtr{p: ImgPtr{addr: Add(p.addr, BV(64, uint64(off)))}, t: st.Field(field).Type()}
	case *Term:
		// an integer word used as a pointer: the address of a known cell
		if obj := in.objAtAddr(p); obj != nil {
			return in.fieldAddr(fr, obj, field, pt)
		}
	case nil:
		in.nilDeref(fr)
	}
	panic(fmt.Sprintf("fieldAddr on %T at %s", pv, fr.site()))
}

func (in *Interp) fieldOffset(st *types.Struct, field int) int64 {
	fields := make([]*types.Var, st.NumFields())
	for i := range fields {
		fields[i] = st.Field(i)
	}
	return in.sizes.Offsetsof(fields)[field]
}

func (in *Interp) boundsPanic(fr *frame, what string) {
	panic(&goPanic{val: "runtime error: " + what, kind: "index", site: fr.site()})
}

// checkIndex handles the bounds check of idx against n; returns concrete index (>=0) or -1
// when the index stays symbolic (then in range is guaranteed on this path).
func (in *Interp) checkIndex(fr *frame, idx *Term, n int) int {
	if c, ok := idx.SConst(); ok {
		if c < 0 || c >= int64(n) {
			in.boundsPanic(fr, fmt.Sprintf("index out of range [%d] with length %d", c, n))
		}
		return int(c)
	}
	inb := Ult(idx, BV(idx.w, uint64(n)))
	if n == 0 {
		inb = FalseT
	}
	if inb == FalseT || (inb != TrueT && !in.branch(inb, fr)) {
		in.boundsPanic(fr, fmt.Sprintf("index out of range [sym] with length %d", n))
	}
	return -1
}

func (in *Interp) indexAddr(fr *frame, x *ssa.IndexAddr) Value {
	base := fr.get(x.X)
	idx := fr.get(x.Index).(*Term)
	if idx.w < 64 {
		_, signed, _ := intWidth(x.Index.Type())
		idx = Resize(idx, 64, signed)
	}
	var et types.Type
	switch t := x.X.Type().Underlying().(type) {
	case *types.Slice:
		et = t.Elem()
	case *types.Pointer:
		et = t.Elem().Underlying().(*types.Array).Elem()
	}
	switch b := base.(type) {
	case Slice:
		if b.img {
			in.checkIndex(fr, idx, b.len)
			return ImgPtr{addr: Add(b.addr, idx)}
		}
		return in.elemAddr(fr, b.arr, b.off, b.len, idx, et)
	case *Value:
		if b == nil {
			in.nilDeref(fr)
		}
		arr, ok := (*b).(*ArrObj)
		if !ok {
			panic(fmt.Sprintf("indexAddr: cell holds %T at %s", *b, fr.site()))
		}
		return in.elemAddr(fr, arr, 0, len(arr.elems), idx, et)
	}
	panic(fmt.Sprintf("indexAddr on %T at %s", base, fr.site()))
}

func (in *Interp) elemAddr(fr *frame, arr *ArrObj, off, n int, idx *Term, et types.Type) Value {
	ci := in.checkIndex(fr, idx, n)
	if ci < 0 {
		if isScalarElem(et) && n <= in.maxSymIndex {
			return SymElemPtr{arr: arr, off: off, n: n, idx: idx}
		}
		// concretise by forking over the feasible indexes
		ci = in.concretize(fr, idx, n)
	}
	if isScalarElem(et) {
		return ElemPtr{arr: arr, idx: off + ci}
	}
	return &arr.elems[off+ci]
}

// concretize forks over values 0..n-1 of idx.
func (in *Interp) concretize(fr *frame, idx *Term, n int) int {
	if vals := possibleValues(idx, 64); vals != nil {
		// only the values the index term can take at all
		var last = -1
		for _, v := range vals {
			if v >= uint64(n) {
				continue
			}
			c := Eq(idx, BV(idx.w, v))
			if c == FalseT {
				continue
			}
			if c == TrueT || in.branch(c, fr) {
				return int(v)
			}
			last = int(v)
		}
		if last >= 0 {
			// all candidates refuted on this path: infeasible
			panic(pathEnd{"index has no feasible value"})
		}
	}
	for i := 0; i < n-1; i++ {
		c := Eq(idx, BV(idx.w, uint64(i)))
		if c == TrueT {
			return i
		}
		if c == FalseT {
			continue
		}
		if in.branch(c, fr) {
			return i
		}
	}
	return n - 1
}

func (in *Interp) sliceGet(fr *frame, s Slice, i int) Value {
	if s.img {
		in.imgRace(fr, s.addr, false)
		return in.imgLoad(Add(s.addr, BV(64, uint64(i))), 1)
	}
	return s.arr.elems[s.off+i]
}

func (in *Interp) sliceSet(fr *frame, s Slice, i int, v Value) {
	if s.img {
		in.imgRace(fr, s.addr, true)
		in.imgStore(Add(s.addr, BV(64, uint64(i))), v.(*Term))
		return
	}
	in.storeInto(&s.arr.elems[s.off+i], v)
}

func (in *Interp) indexVal(fr *frame, x *ssa.Index) Value {
	base := fr.get(x.X)
	idx := fr.get(x.Index).(*Term)
	switch b := base.(type) {
	case string:
		ci := in.checkIndex(fr, idx, len(b))
		if ci < 0 {
			ci = in.concretize(fr, idx, len(b))
		}
		return BV(8, uint64(b[ci]))
	case *ArrObj:
		ci := in.checkIndex(fr, idx, len(b.elems))
		if ci < 0 {
			if isScalarElem(x.Type()) {
				if idx.w < 64 {
					idx = ZExt(idx, 64)
				}
				return in.symLoad(SymElemPtr{arr: b, n: len(b.elems), idx: idx})
			}
			ci = in.concretize(fr, idx, len(b.elems))
		}
		return copyVal(b.elems[ci])
	}
	panic(fmt.Sprintf("index on %T at %s", base, fr.site()))
}

func (in *Interp) sliceOp(fr *frame, x *ssa.Slice) Value {
	base := fr.get(x.X)
	getI := func(v ssa.Value, def int) int {
		if v == nil {
			return def
		}
		c, ok := fr.get(v).(*Term).SConst()
		if !ok {
			panic(pathAbort{"unsupported: symbolic slice bound at " + fr.site()})
		}
		return int(c)
	}
	switch b := base.(type) {
	case string:
		lo, hi := getI(x.Low, 0), getI(x.High, len(b))
		if lo < 0 || hi > len(b) || lo > hi {
			panic(&goPanic{val: fmt.Sprintf("runtime error: slice bounds out of range [%d:%d] with length %d", lo, hi, len(b)), kind: "slice", site: fr.site()})
		}
		return b[lo:hi]
	case Slice:
		lo, hi := getI(x.Low, 0), getI(x.High, b.len)
		mx := getI(x.Max, b.cap)
		if lo < 0 || hi > b.cap || lo > hi || mx > b.cap || hi > mx {
			panic(&goPanic{val: fmt.Sprintf("runtime error: slice bounds out of range [%d:%d] with capacity %d", lo, hi, b.cap), kind: "slice", site: fr.site()})
		}
		if b.img {
			return Slice{img: true, addr: Add(b.addr, BV(64, uint64(lo))), len: hi - lo, cap: mx - lo}
		}
		if b.nilS {
			return b
		}
		return Slice{arr: b.arr, off: b.off + lo, len: hi - lo, cap: mx - lo}
	case *Value:
		if b == nil {
			in.nilDeref(fr)
		}
		arr := (*b).(*ArrObj)
		n := len(arr.elems)
		lo, hi := getI(x.Low, 0), getI(x.High, n)
		mx := getI(x.Max, n)
		if lo < 0 || hi > n || lo > hi || mx > n || hi > mx {
			panic(&goPanic{val: "runtime error: slice bounds out of range", kind: "slice", site: fr.site()})
		}
		return Slice{arr: arr, off: lo, len: hi - lo, cap: mx - lo}
	}
	panic(fmt.Sprintf("slice of %T at %s", base, fr.site()))
}

// ---- maps ----

func (in *Interp) mapFind(fr *frame, m *MapV, k Value) int {
	if m == nil {
		return -1
	}
	for i := range m.keys {
		if !m.live[i] {
			continue
		}
		e := in.equal(fr, m.keys[i], k)
		if e == TrueT {
			return i
		}
		if e == FalseT {
			continue
		}
		if in.branch(e, fr) {
			return i
		}
	}
	return -1
}

func (in *Interp) mapSet(fr *frame, m *MapV, k, v Value) {
	in.raceAccess(fr, &m.rc, true)
	i := in.mapFind(fr, m, k)
	if i >= 0 {
		in.setCell(&m.vals[i], v)
		return
	}
	m.keys = append(m.keys, k)
	m.vals = append(m.vals, v)
	m.live = append(m.live, true)
	n := len(m.keys)
	if in.path != nil {
		in.path.undo = append(in.path.undo, undoEntry{fn: func() {
			m.keys, m.vals, m.live = m.keys[:n-1], m.vals[:n-1], m.live[:n-1]
		}})
	}
}

func (in *Interp) mapDelete(fr *frame, m *MapV, k Value) {
	in.raceAccess(fr, &m.rc, true)
	i := in.mapFind(fr, m, k)
	if i < 0 {
		return
	}
	m.live[i] = false
	if in.path != nil {
		in.path.undo = append(in.path.undo, undoEntry{fn: func() { m.live[i] = true }})
	}
}

func (m *MapV) length() int {
	if m == nil {
		return 0
	}
	n := 0
	for _, l := range m.live {
		if l {
			n++
		}
	}
	return n
}

func (in *Interp) lookup(fr *frame, x *ssa.Lookup) Value {
	base := fr.get(x.X)
	if s, ok := base.(string); ok {
		idx := fr.get(x.Index).(*Term)
		ci := in.checkIndex(fr, idx, len(s))
		if ci < 0 {
			ci = in.concretize(fr, idx, len(s))
		}
		return BV(8, uint64(s[ci]))
	}
	m := base.(*MapV)
	if m != nil {
		in.raceAccess(fr, &m.rc, false)
	}
	vt := x.X.Type().Underlying().(*types.Map).Elem()
	i := in.mapFind(fr, m, fr.get(x.Index))
	var v Value
	if i >= 0 {
		v = copyVal(m.vals[i])
	} else {
		v = zero(vt)
	}
	if x.CommaOk {
		return Tuple{v, Bool(i >= 0)}
	}
	return v
}

func (in *Interp) rangeIter(fr *frame, v Value) Value {
	switch x := v.(type) {
	case string:
		return &iterV{str: x, isS: true}
	case *MapV:
		return &iterV{m: x}
	}
	panic(fmt.Sprintf("range over %T", v))
}

func (in *Interp) next(fr *frame, x *ssa.Next, it *iterV) Value {
	if it.isS {
		if it.i >= len(it.str) {
			return Tuple{FalseT, BV(wordBits, 0), BV(32, 0)}
		}
		for j, r := range it.str[it.i:] {
			_ = j
			k := it.i
			it.i += len(string(r))
			if r == 0xFFFD {
				it.i = k + 1
			}
			return Tuple{TrueT, BV(wordBits, uint64(k)), BV(32, uint64(r))}
		}
	}
	tt := x.Type().(*types.Tuple)
	if it.m != nil {
		for it.i < len(it.m.keys) {
			i := it.i
			it.i++
			if it.m.live[i] {
				return Tuple{TrueT, it.m.keys[i], copyVal(it.m.vals[i])}
			}
		}
	}
	zk, zv := Value(nil), Value(nil)
	if tt.At(1).Type() != nil && !isInvalid(tt.At(1).Type()) {
		zk = zero(tt.At(1).Type())
	}
	if tt.At(2).Type() != nil && !isInvalid(tt.At(2).Type()) {
		zv = zero(tt.At(2).Type())
	}
	return Tuple{FalseT, zk, zv}
}

func isInvalid(t types.Type) bool {
	b, ok := t.(*types.Basic)
	return ok && b.Kind() == types.Invalid
}

// ---- type assertions ----

func (in *Interp) typeAssert(fr *frame, x *ssa.TypeAssert) Value {
	if fab, ok := fr.get(x.X).(FabIface); ok {
		return in.typeAssertFab(fr, x, fab)
	}
	v := fr.get(x.X).(Iface)
	var ok bool
	var res Value
	if _, isIface := x.AssertedType.Underlying().(*types.Interface); isIface {
		ok = v.t != nil && in.implements(v, x.AssertedType)
		if ok {
			res = v
		} else {
			res = Iface{}
		}
	} else {
		ok = v.t != nil && types.Identical(v.t, x.AssertedType)
		if ok {
			res = v.v
		} else {
			res = zero(x.AssertedType)
		}
	}
	if x.CommaOk {
		return Tuple{res, Bool(ok)}
	}
	if !ok {
		from := "nil"
		if v.t != nil {
			from = v.t.String()
		}
		panic(&goPanic{val: fmt.Sprintf("interface conversion: interface is %s, not %s", from, x.AssertedType), kind: "typeassert", site: fr.site()})
	}
	return res
}

// typeAssertFab: assertion on an interface value whose itab goom fabricated. The runtime
// compares the itab's concrete type word with the asserted type; the fabricated itab
// names a real type there (read from a reflect.Type), so the verdict is decided by it.
func (in *Interp) typeAssertFab(fr *frame, x *ssa.TypeAssert, fab FabIface) Value {
	if _, isIface := x.AssertedType.Underlying().(*types.Interface); isIface {
		panic(pathAbort{"unsupported: interface-to-interface assertion on a fabricated itab at " + fr.site()})
	}
	var dyn types.Type
	if tp, ok := fab.tab.(*Value); ok && tp != nil {
		if st, ok := (*tp).(*Struct); ok && len(st.f) > 1 {
			w := st.f[1]
			for {
				c, ok := w.(CastPtr)
				if !ok {
					break
				}
				w = c.p
			}
			if cp, ok := w.(*Value); ok && cp != nil {
				w = *cp
			}
			if rt, ok := w.(*RType); ok {
				dyn = rt.t
			}
		}
	}
	if dyn == nil {
		d := fmt.Sprintf("%T", fab.tab)
		if tp, ok := fab.tab.(*Value); ok && tp != nil {
			d += fmt.Sprintf(" -> %T", *tp)
			if st, ok := (*tp).(*Struct); ok {
				for _, f := range st.f {
					d += fmt.Sprintf(" [%T %v]", f, f)
				}
			}
		}
		panic(pathAbort{"unsupported: type word of a fabricated itab (" + d + ") at " + fr.site()})
	}
	ok := types.Identical(dyn, x.AssertedType)
	var res Value
	if ok {
		res = fab.data
	} else {
		res = zero(x.AssertedType)
	}
	if x.CommaOk {
		return Tuple{res, Bool(ok)}
	}
	if !ok {
		panic(&goPanic{val: fmt.Sprintf("interface conversion: interface is %s, not %s", dyn, x.AssertedType), kind: "typeassert", site: fr.site()})
	}
	return res
}

func (in *Interp) implements(v Iface, it types.Type) bool {
	iface := it.Underlying().(*types.Interface)
	if iface.NumMethods() == 0 {
		return true
	}
	if _, isR := v.v.(*RType); isR {
		return true
	}
	return types.Implements(v.t, iface)
}

// ---- builtins ----

func (in *Interp) builtin(fr *frame, b *ssa.Builtin, args []Value) Value {
	switch b.Name() {
	case "len":
		switch x := args[0].(type) {
		case string:
			return BV(wordBits, uint64(len(x)))
		case Slice:
			return BV(wordBits, uint64(x.len))
		case *ArrObj:
			return BV(wordBits, uint64(len(x.elems)))
		case *MapV:
			return BV(wordBits, uint64(x.length()))
		case *Value:
			if x == nil {
				return BV(wordBits, 0)
			}
			return BV(wordBits, uint64(len((*x).(*ArrObj).elems)))
		case *SymStr:
			return in.symStrLen(fr, x)
		}
	case "cap":
		switch x := args[0].(type) {
		case Slice:
			return BV(wordBits, uint64(x.cap))
		case *ArrObj:
			return BV(wordBits, uint64(len(x.elems)))
		case *Value:
			return BV(wordBits, uint64(len((*x).(*ArrObj).elems)))
		}
	case "append":
		return in.appendOp(fr, args[0].(Slice), args[1])
	case "copy":
		dst := args[0].(Slice)
		n := dst.len
		switch src := args[1].(type) {
		case Slice:
			if src.len < n {
				n = src.len
			}
			tmp := make([]Value, n)
			for i := 0; i < n; i++ {
				tmp[i] = in.sliceGet(fr, src, i)
			}
			for i := 0; i < n; i++ {
				in.sliceSet(fr, dst, i, tmp[i])
			}
		case string:
			if len(src) < n {
				n = len(src)
			}
			for i := 0; i < n; i++ {
				in.sliceSet(fr, dst, i, BV(8, uint64(src[i])))
			}
		}
		return BV(wordBits, uint64(n))
	case "delete":
		if m := args[0].(*MapV); m != nil {
			in.mapDelete(fr, m, args[1])
		}
		return nil
	case "panic":
		panic(&goPanic{val: args[0], kind: "explicit", site: fr.site()})
	case "recover":
		return in.doRecover(fr)
	case "print", "println":
		return nil
	case "min", "max":
		r := args[0].(*Term)
		for _, a := range args[1:] {
			t := a.(*Term)
			_, signed, _ := intWidth(b.Type().(*types.Signature).Results().At(0).Type())
			var lt *Term
			if signed {
				lt = Slt(t, r)
			} else {
				lt = Ult(t, r)
			}
			if b.Name() == "max" {
				lt = BNot(BOr(lt, Eq(t, r)))
			}
			r = Ite(lt, t, r)
		}
		return r
	case "ssa:wrapnilchk":
		if isNilPtr(args[0]) {
			panic(&goPanic{val: "value method called using nil pointer", kind: "nil", site: fr.site()})
		}
		return args[0]
	}
	panic(fmt.Sprintf("builtin %s on %T at %s", b.Name(), args[0], fr.site()))
}

func (in *Interp) doRecover(fr *frame) Value {
	// recover() must be called directly by a deferred function
	if fr.caller != nil && fr.caller.panicking {
		c := fr.caller
		c.panicking = false
		p := c.panicV
		c.panicV = nil
		if in.path != nil {
			in.path.recovered = append(in.path.recovered, p)
		}
		switch v := p.val.(type) {
		case Iface:
			return v
		case string:
			if p.kind == "explicit" {
				return Iface{t: types.Typ[types.String], v: v}
			}
			return in.runtimeError(v)
		default:
			return Iface{t: types.Typ[types.String], v: valString(v)}
		}
	}
	return Iface{}
}

func (in *Interp) appendOp(fr *frame, s Slice, add Value) Value {
	var extra []Value
	switch a := add.(type) {
	case Slice:
		for i := 0; i < a.len; i++ {
			extra = append(extra, copyVal(in.sliceGet(fr, a, i)))
		}
	case string:
		for i := 0; i < len(a); i++ {
			extra = append(extra, BV(8, uint64(a[i])))
		}
	default:
		panic(fmt.Sprintf("append of %T", add))
	}
	if s.img {
		panic(pathAbort{"unsupported: append to image slice"})
	}
	if len(extra) == 0 {
		return s
	}
	if !s.nilS && s.arr != nil && s.len+len(extra) <= s.cap {
		for i, e := range extra {
			in.setCell(&s.arr.elems[s.off+s.len+i], e)
		}
		return Slice{arr: s.arr, off: s.off, len: s.len + len(extra), cap: s.cap}
	}
	ncap := s.len + len(extra)
	if ncap < 2*s.cap {
		ncap = 2 * s.cap
	}
	a := newArr(ncap)
	for i := 0; i < s.len; i++ {
		a.elems[i] = copyVal(s.arr.elems[s.off+i])
	}
	for i, e := range extra {
		a.elems[s.len+i] = e
	}
	// fill spare capacity with zero of the element kind (copy of first element's shape)
	for i := s.len + len(extra); i < ncap; i++ {
		a.elems[i] = zeroLike(extra[0])
	}
	return Slice{arr: a, len: s.len + len(extra), cap: ncap}
}

func zeroLike(v Value) Value {
	switch x := v.(type) {
	case *Term:
		if x.w == 0 {
			return FalseT
		}
		return BV(x.w, 0)
	case string, *SymStr:
		return ""
	case *Struct:
		n := &Struct{f: make([]Value, len(x.f))}
		for i := range x.f {
			n.f[i] = zeroLike(x.f[i])
		}
		return n
	case *ArrObj:
		n := newArr(len(x.elems))
		for i := range x.elems {
			n.elems[i] = zeroLike(x.elems[i])
		}
		return n
	case Iface:
		return Iface{}
	case Slice:
		return Slice{nilS: true}
	case *Value:
		return (*Value)(nil)
	case *FuncV:
		return (*FuncV)(nil)
	case *MapV:
		return (*MapV)(nil)
	case *RValue:
		return &RValue{}
	case FloatV:
		return FloatV{}
	}
	return nil
}

func dbg(format string, a ...interface{}) {
	if os.Getenv("SYMGO_DEBUG") != "" {
		fmt.Fprintf(os.Stderr, format+"\n", a...)
	}
}

// lookupMethod returns the implementation of method name on type t, or nil.
func (in *Interp) lookupMethod(t types.Type, pkg *types.Package, name string) *ssa.Function {
	sel := in.prog.MethodSets.MethodSet(t).Lookup(pkg, name)
	if sel == nil {
		return nil
	}
	return in.prog.MethodValue(sel)
}
