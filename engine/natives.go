package main

// Native models of standard-library and environment functions (see DESIGN §3.5). Every use
// is recorded and listed in the evidence file.

import (
	"encoding/hex"
	"fmt"
	"go/types"
	"strconv"
	"strings"

	"golang.org/x/tools/go/ssa"
)

type stubFn = func(in *Interp, fr *frame, args []Value) Value

func concreteStr(v Value) (string, bool) {
	s, ok := v.(string)
	return s, ok
}

func mustStr(fr *frame, v Value, what string) string {
	s, ok := v.(string)
	if !ok {
		panic(pathAbort{"unsupported: " + what + " on symbolic string at " + fr.site()})
	}
	return s
}

func strSlice(ss []string) Value {
	a := newArr(len(ss))
	for i, s := range ss {
		a.elems[i] = s
	}
	return Slice{arr: a, len: len(ss), cap: len(ss)}
}

func (in *Interp) goStrings(fr *frame, v Value) []string {
	s := v.(Slice)
	out := make([]string, s.len)
	for i := 0; i < s.len; i++ {
		out[i] = mustStr(fr, in.sliceGet(fr, s, i), "string slice")
	}
	return out
}

func noop(in *Interp, fr *frame, args []Value) Value { return nil }

func stubTable() map[string]stubFn {
	m := map[string]stubFn{}
	// ---- strings ----
	s2b := func(f func(a, b string) bool, symf func(in *Interp, fr *frame, s *SymStr, c string) *Term) stubFn {
		return func(in *Interp, fr *frame, args []Value) Value {
			if ss, ok := args[0].(*SymStr); ok && symf != nil {
				return symf(in, fr, ss, mustStr(fr, args[1], "pattern"))
			}
			return Bool(f(mustStr(fr, args[0], "strings"), mustStr(fr, args[1], "strings")))
		}
	}
	m["strings.HasPrefix"] = s2b(strings.HasPrefix, (*Interp).symStrHasPrefix)
	m["strings.HasSuffix"] = s2b(strings.HasSuffix, nil)
	m["strings.Contains"] = s2b(strings.Contains, (*Interp).symStrContains)
	m["strings.EqualFold"] = s2b(strings.EqualFold, nil)
	s2s := func(f func(a, b string) string) stubFn {
		return func(in *Interp, fr *frame, args []Value) Value {
			return f(mustStr(fr, args[0], "strings"), mustStr(fr, args[1], "strings"))
		}
	}
	m["strings.TrimSuffix"] = s2s(strings.TrimSuffix)
	m["strings.TrimPrefix"] = s2s(strings.TrimPrefix)
	m["strings.Trim"] = s2s(strings.Trim)
	m["strings.TrimLeft"] = s2s(strings.TrimLeft)
	m["strings.TrimRight"] = s2s(strings.TrimRight)
	s2i := func(f func(a, b string) int) stubFn {
		return func(in *Interp, fr *frame, args []Value) Value {
			return BV(wordBits, uint64(int64(f(mustStr(fr, args[0], "strings"), mustStr(fr, args[1], "strings")))))
		}
	}
	m["strings.Index"] = s2i(strings.Index)
	m["strings.LastIndex"] = s2i(strings.LastIndex)
	m["strings.Count"] = s2i(strings.Count)
	m["strings.IndexByte"] = func(in *Interp, fr *frame, args []Value) Value {
		return BV(wordBits, uint64(int64(strings.IndexByte(mustStr(fr, args[0], "strings"), byte(argInt(args[1]))))))
	}
	m["strings.LastIndexByte"] = func(in *Interp, fr *frame, args []Value) Value {
		return BV(wordBits, uint64(int64(strings.LastIndexByte(mustStr(fr, args[0], "strings"), byte(argInt(args[1]))))))
	}
	m["strings.Split"] = func(in *Interp, fr *frame, args []Value) Value {
		return strSlice(strings.Split(mustStr(fr, args[0], "Split"), mustStr(fr, args[1], "Split")))
	}
	m["strings.SplitN"] = func(in *Interp, fr *frame, args []Value) Value {
		return strSlice(strings.SplitN(mustStr(fr, args[0], "Split"), mustStr(fr, args[1], "Split"), argInt(args[2])))
	}
	m["strings.Fields"] = func(in *Interp, fr *frame, args []Value) Value {
		return strSlice(strings.Fields(mustStr(fr, args[0], "Fields")))
	}
	m["strings.Join"] = func(in *Interp, fr *frame, args []Value) Value {
		s := args[0].(Slice)
		parts := make([]string, s.len)
		for i := 0; i < s.len; i++ {
			e := in.sliceGet(fr, s, i)
			if str, ok := e.(string); ok {
				parts[i] = str
			} else {
				parts[i] = "<sym>"
			}
		}
		return strings.Join(parts, mustStr(fr, args[1], "Join"))
	}
	m["strings.Replace"] = func(in *Interp, fr *frame, args []Value) Value {
		return strings.Replace(mustStr(fr, args[0], "Replace"), mustStr(fr, args[1], "Replace"), mustStr(fr, args[2], "Replace"), argInt(args[3]))
	}
	m["strings.ReplaceAll"] = func(in *Interp, fr *frame, args []Value) Value {
		return strings.ReplaceAll(mustStr(fr, args[0], "Replace"), mustStr(fr, args[1], "Replace"), mustStr(fr, args[2], "Replace"))
	}
	s1s := func(f func(a string) string) stubFn {
		return func(in *Interp, fr *frame, args []Value) Value { return f(mustStr(fr, args[0], "strings")) }
	}
	m["strings.ToLower"] = s1s(strings.ToLower)
	m["strings.ToUpper"] = s1s(strings.ToUpper)
	m["strings.Title"] = s1s(strings.Title) //nolint
	m["strings.TrimSpace"] = s1s(strings.TrimSpace)
	m["strings.Repeat"] = func(in *Interp, fr *frame, args []Value) Value {
		return strings.Repeat(mustStr(fr, args[0], "Repeat"), argInt(args[1]))
	}
	m["bytes.Equal"] = func(in *Interp, fr *frame, args []Value) Value {
		a, aok := args[0].(Slice)
		b, bok := args[1].(Slice)
		if !aok || !bok {
			panic(pathAbort{"unsupported: bytes.Equal on non-slices"})
		}
		if a.nilS {
			a.len = 0
		}
		if b.nilS {
			b.len = 0
		}
		if a.len != b.len {
			return Bool(false)
		}
		r := Bool(true)
		for i := 0; i < a.len; i++ {
			r = BAnd(r, Eq(in.sliceGet(fr, a, i).(*Term), in.sliceGet(fr, b, i).(*Term)))
		}
		return r
	}
	// ---- strconv ----
	m["encoding/hex.EncodeToString"] = func(in *Interp, fr *frame, args []Value) Value {
		sl, ok := args[0].(Slice)
		if !ok || sl.nilS {
			return ""
		}
		bs := make([]byte, sl.len)
		for i := 0; i < sl.len; i++ {
			c, isC := in.sliceGet(fr, sl, i).(*Term).Const()
			if !isC {
				return &SymStr{tag: "hex", args: []Value{args[0]}}
			}
			bs[i] = byte(c)
		}
		return hex.EncodeToString(bs)
	}
	m["strconv.Itoa"] = func(in *Interp, fr *frame, args []Value) Value {
		t := args[0].(*Term)
		if c, ok := t.SConst(); ok {
			return strconv.Itoa(int(c))
		}
		return symSeq([]strPart{{t: t, signed: true, verb: 'd'}})
	}
	m["strconv.Atoi"] = func(in *Interp, fr *frame, args []Value) Value {
		n, err := strconv.Atoi(mustStr(fr, args[0], "Atoi"))
		if err != nil {
			return Tuple{BV(wordBits, 0), in.newError(err.Error())}
		}
		return Tuple{BV(wordBits, uint64(int64(n))), Iface{}}
	}
	m["strconv.Quote"] = s1s(strconv.Quote)
	m["strconv.ParseInt"] = func(in *Interp, fr *frame, args []Value) Value {
		n, err := strconv.ParseInt(mustStr(fr, args[0], "ParseInt"), argInt(args[1]), argInt(args[2]))
		if err != nil {
			return Tuple{BV(64, uint64(n)), in.newError(err.Error())}
		}
		return Tuple{BV(64, uint64(n)), Iface{}}
	}
	m["strconv.ParseUint"] = func(in *Interp, fr *frame, args []Value) Value {
		n, err := strconv.ParseUint(mustStr(fr, args[0], "ParseUint"), argInt(args[1]), argInt(args[2]))
		if err != nil {
			return Tuple{BV(64, n), in.newError(err.Error())}
		}
		return Tuple{BV(64, n), Iface{}}
	}
	m["strconv.ParseBool"] = func(in *Interp, fr *frame, args []Value) Value {
		b, err := strconv.ParseBool(mustStr(fr, args[0], "ParseBool"))
		if err != nil {
			return Tuple{Bool(b), in.newError(err.Error())}
		}
		return Tuple{Bool(b), Iface{}}
	}
	m["strconv.ParseFloat"] = func(in *Interp, fr *frame, args []Value) Value {
		f, err := strconv.ParseFloat(mustStr(fr, args[0], "ParseFloat"), argInt(args[1]))
		if err != nil {
			return Tuple{FloatV{f}, in.newError(err.Error())}
		}
		return Tuple{FloatV{f}, Iface{}}
	}
	// ---- fmt ----
	m["fmt.Sprintf"] = func(in *Interp, fr *frame, args []Value) Value {
		return in.sprintf(fr, args[0], args[1].(Slice))
	}
	m["fmt.Sprint"] = func(in *Interp, fr *frame, args []Value) Value {
		return in.sprint(fr, args[0].(Slice), "")
	}
	m["fmt.Sprintln"] = func(in *Interp, fr *frame, args []Value) Value {
		return symConcat(in.sprint(fr, args[0].(Slice), " "), "\n")
	}
	m["fmt.Errorf"] = func(in *Interp, fr *frame, args []Value) Value {
		return in.errorf(fr, args[0], args[1].(Slice))
	}
	m["fmt.Println"] = func(in *Interp, fr *frame, args []Value) Value { return Tuple{BV(wordBits, 0), Iface{}} }
	m["fmt.Printf"] = m["fmt.Println"]
	m["fmt.Print"] = m["fmt.Println"]
	m["fmt.Fprintf"] = func(in *Interp, fr *frame, args []Value) Value {
		in.writeTo(fr, args[0], in.sprintf(fr, args[1], args[2].(Slice)))
		return Tuple{BV(wordBits, 0), Iface{}}
	}
	m["fmt.Fprintln"] = func(in *Interp, fr *frame, args []Value) Value {
		in.writeTo(fr, args[0], symConcat(in.sprint(fr, args[1].(Slice), " "), "\n"))
		return Tuple{BV(wordBits, 0), Iface{}}
	}
	m["fmt.Fprint"] = func(in *Interp, fr *frame, args []Value) Value {
		in.writeTo(fr, args[0], in.sprint(fr, args[1].(Slice), ""))
		return Tuple{BV(wordBits, 0), Iface{}}
	}
	// bytes.Buffer / strings.Builder as string accumulators (contents may be symbolic)
	for _, recv := range []string{"(*bytes.Buffer).", "(*strings.Builder)."} {
		m[recv+"WriteString"] = func(in *Interp, fr *frame, args []Value) Value {
			in.bufAppend(fr, args[0], args[1])
			return Tuple{BV(wordBits, 0), Iface{}}
		}
		m[recv+"WriteByte"] = func(in *Interp, fr *frame, args []Value) Value {
			c, ok := args[1].(*Term).Const()
			if !ok {
				panic(pathAbort{"unsupported: WriteByte of symbolic byte"})
			}
			in.bufAppend(fr, args[0], string([]byte{byte(c)}))
			return Iface{}
		}
		m[recv+"WriteRune"] = func(in *Interp, fr *frame, args []Value) Value {
			c, ok := args[1].(*Term).Const()
			if !ok {
				panic(pathAbort{"unsupported: WriteRune of symbolic rune"})
			}
			in.bufAppend(fr, args[0], string(rune(c)))
			return Tuple{BV(wordBits, 0), Iface{}}
		}
		m[recv+"Write"] = func(in *Interp, fr *frame, args []Value) Value {
			in.bufAppend(fr, args[0], in.convert(fr, byteSliceT, types.Typ[types.String], args[1]))
			return Tuple{BV(wordBits, 0), Iface{}}
		}
		m[recv+"String"] = func(in *Interp, fr *frame, args []Value) Value {
			if isNilPtr(args[0]) {
				return "<nil>"
			}
			return in.bufGet(args[0])
		}
		m[recv+"Len"] = func(in *Interp, fr *frame, args []Value) Value {
			s, ok := in.bufGet(args[0]).(string)
			if !ok {
				panic(pathAbort{"unsupported: Len of symbolic buffer"})
			}
			return BV(wordBits, uint64(len(s)))
		}
		m[recv+"Reset"] = func(in *Interp, fr *frame, args []Value) Value {
			in.path.ghost[bufKey(args[0])] = ""
			return nil
		}
	}
	// ---- errors (Is needs reflectlite) ----
	m["errors.Is"] = func(in *Interp, fr *frame, args []Value) Value {
		err, target := args[0].(Iface), args[1].(Iface)
		for i := 0; i < 32 && err.t != nil; i++ {
			if types.Comparable(err.t) && in.equal(fr, err, target) == TrueT {
				return TrueT
			}
			u := in.lookupMethod(err.t, nil, "Unwrap")
			if u == nil {
				break
			}
			r := in.callFn(fr, u, []Value{err.v}, nil)
			ne, ok := r.(Iface)
			if !ok {
				break
			}
			err = ne
		}
		return FalseT
	}
	// ---- sort.Slice (the real one goes through reflectlite) ----
	sortSlice := func(in *Interp, fr *frame, args []Value) Value {
		ifc := args[0].(Iface)
		sl, ok := ifc.v.(Slice)
		if !ok || sl.img {
			panic(pathAbort{"unsupported: sort.Slice on non-heap slice"})
		}
		less := args[1]
		lt := func(i, j int) bool {
			r := in.call(fr, less, []Value{BV(wordBits, uint64(i)), BV(wordBits, uint64(j))}).(*Term)
			if r == TrueT {
				return true
			}
			if r == FalseT {
				return false
			}
			return in.branch(r, fr)
		}
		// insertion sort (stable), swapping whole elements in place
		for i := 1; i < sl.len; i++ {
			for j := i; j > 0 && lt(j, j-1); j-- {
				a, b := &sl.arr.elems[sl.off+j], &sl.arr.elems[sl.off+j-1]
				va, vb := copyVal(*a), copyVal(*b)
				in.setCell(a, vb)
				in.setCell(b, va)
			}
		}
		return nil
	}
	m["sort.Slice"] = sortSlice
	m["sort.SliceStable"] = sortSlice
	// ---- sync ----
	m["(*sync.Mutex).Lock"] = func(in *Interp, fr *frame, args []Value) Value {
		in.mutexLock(fr, ptrCell(args[0]), "lock")
		return nil
	}
	m["(*sync.Mutex).Unlock"] = func(in *Interp, fr *frame, args []Value) Value {
		in.mutexUnlock(fr, ptrCell(args[0]), "unlock")
		return nil
	}
	m["(*sync.RWMutex).Lock"] = m["(*sync.Mutex).Lock"]
	m["(*sync.RWMutex).Unlock"] = m["(*sync.Mutex).Unlock"]
	m["(*sync.RWMutex).RLock"] = func(in *Interp, fr *frame, args []Value) Value {
		in.mutexLock(fr, ptrCell(args[0]), "rlock")
		return nil
	}
	m["(*sync.RWMutex).RUnlock"] = func(in *Interp, fr *frame, args []Value) Value {
		in.mutexUnlock(fr, ptrCell(args[0]), "runlock")
		return nil
	}
	// ---- sync.Map: a map with internally synchronised (sequentially consistent) operations ----
	syncMap := func(in *Interp, fr *frame, recv Value) *MapV {
		c := ptrCell(recv)
		in.atomicSync(fr, c)
		if in.syncMaps == nil {
			in.syncMaps = map[*Value]*MapV{}
		}
		mv, ok := in.syncMaps[c]
		if !ok {
			in.nextMapID++
			mv = &MapV{id: in.nextMapID}
			in.syncMaps[c] = mv
			if in.path != nil {
				in.path.undo = append(in.path.undo, undoEntry{fn: func() { delete(in.syncMaps, c) }})
			}
		}
		return mv
	}
	syncMapSet := func(in *Interp, fr *frame, mv *MapV, k, v Value) {
		if i := in.mapFind(fr, mv, k); i >= 0 {
			in.setCell(&mv.vals[i], v)
			return
		}
		mv.keys = append(mv.keys, k)
		mv.vals = append(mv.vals, v)
		mv.live = append(mv.live, true)
		n := len(mv.keys)
		if in.path != nil {
			in.path.undo = append(in.path.undo, undoEntry{fn: func() {
				mv.keys, mv.vals, mv.live = mv.keys[:n-1], mv.vals[:n-1], mv.live[:n-1]
			}})
		}
	}
	m["(*sync.Map).Load"] = func(in *Interp, fr *frame, args []Value) Value {
		mv := syncMap(in, fr, args[0])
		if i := in.mapFind(fr, mv, args[1]); i >= 0 {
			return Tuple{mv.vals[i], TrueT}
		}
		return Tuple{Iface{}, FalseT}
	}
	m["(*sync.Map).Store"] = func(in *Interp, fr *frame, args []Value) Value {
		syncMapSet(in, fr, syncMap(in, fr, args[0]), args[1], args[2])
		return nil
	}
	m["(*sync.Map).LoadOrStore"] = func(in *Interp, fr *frame, args []Value) Value {
		mv := syncMap(in, fr, args[0])
		if i := in.mapFind(fr, mv, args[1]); i >= 0 {
			return Tuple{mv.vals[i], TrueT}
		}
		syncMapSet(in, fr, mv, args[1], args[2])
		return Tuple{args[2], FalseT}
	}
	m["(*sync.Map).Delete"] = func(in *Interp, fr *frame, args []Value) Value {
		mv := syncMap(in, fr, args[0])
		if i := in.mapFind(fr, mv, args[1]); i >= 0 {
			mv.live[i] = false
			if in.path != nil {
				in.path.undo = append(in.path.undo, undoEntry{fn: func() { mv.live[i] = true }})
			}
		}
		return nil
	}
	m["(*sync.Once).Do"] = func(in *Interp, fr *frame, args []Value) Value {
		in.onceDo(fr, ptrCell(args[0]), args[1])
		return nil
	}
	// ---- sync/atomic ----
	atomicLoad := func(in *Interp, fr *frame, args []Value) Value {
		p := in.atomicCell(fr, args[0])
		in.atomicSync(fr, p)
		return *p
	}
	atomicStore := func(in *Interp, fr *frame, args []Value) Value {
		p := in.atomicCell(fr, args[0])
		in.atomicSync(fr, p)
		in.setCell(p, args[1])
		return nil
	}
	atomicAdd := func(in *Interp, fr *frame, args []Value) Value {
		p := in.atomicCell(fr, args[0])
		in.atomicSync(fr, p)
		nv := Add((*p).(*Term), args[1].(*Term))
		in.setCell(p, nv)
		return nv
	}
	atomicCAS := func(in *Interp, fr *frame, args []Value) Value {
		p := in.atomicCell(fr, args[0])
		in.atomicSync(fr, p)
		eq := Eq((*p).(*Term), args[1].(*Term))
		if eq == TrueT || (eq != FalseT && in.branch(eq, fr)) {
			in.setCell(p, args[2])
			return TrueT
		}
		return FalseT
	}
	atomicSwap := func(in *Interp, fr *frame, args []Value) Value {
		p := in.atomicCell(fr, args[0])
		in.atomicSync(fr, p)
		old := *p
		in.setCell(p, args[1])
		return old
	}
	for _, ty := range []string{"Int32", "Int64", "Uint32", "Uint64", "Uintptr"} {
		m["sync/atomic.Load"+ty] = atomicLoad
		m["sync/atomic.Store"+ty] = atomicStore
		m["sync/atomic.Add"+ty] = atomicAdd
		m["sync/atomic.CompareAndSwap"+ty] = atomicCAS
		m["sync/atomic.Swap"+ty] = atomicSwap
	}
	// ---- runtime ----
	m["runtime.FuncForPC"] = func(in *Interp, fr *frame, args []Value) Value {
		return &RFunc{pc: args[0].(*Term)}
	}
	m["(*runtime.Func).Name"] = func(in *Interp, fr *frame, args []Value) Value {
		rf, ok := args[0].(*RFunc)
		if !ok || rf == nil {
			return ""
		}
		return in.funcNameForPC(rf.pc)
	}
	m["runtime.Caller"] = func(in *Interp, fr *frame, args []Value) Value {
		skip := argInt(args[0])
		f := fr
		for i := 0; i < skip && f != nil; i++ {
			f = f.caller
		}
		if f == nil || f.fn == nil {
			return Tuple{BV(64, 0), "", BV(wordBits, 0), FalseT}
		}
		pos := f.fn.Prog.Fset.Position(f.fn.Pos())
		return Tuple{in.pcForFn(f.fn), pos.Filename, BV(wordBits, uint64(pos.Line)), TrueT}
	}
	m["runtime/debug.Stack"] = func(in *Interp, fr *frame, args []Value) Value { return Slice{nilS: true} }
	m["runtime.GC"] = noop
	m["runtime.KeepAlive"] = noop
	m["runtime.Gosched"] = noop
	// ---- syscall / os ----
	m["syscall.Getpagesize"] = func(in *Interp, fr *frame, args []Value) Value {
		if v, ok := in.path.ghost["pagesize"]; ok {
			return v
		}
		return BV(wordBits, 4096)
	}
	m["os.Getpagesize"] = m["syscall.Getpagesize"]
	m["os.Getenv"] = func(in *Interp, fr *frame, args []Value) Value { return "" }
	// ---- logger: output functions are no-ops (levels stay visible to the code) ----
	lg := "github.com/tencent/goom/internal/logger."
	for _, n := range []string{"Trace", "Tracef", "Debug", "Debugf", "Info", "Infof", "Warning", "Warningf",
		"Important", "Importantf", "Error", "Errorf", "Console", "Consolef", "Consolefc", "write2Console"} {
		name := n
		m[lg+n] = func(in *Interp, fr *frame, args []Value) Value {
			in.path.logCalls++
			_ = name
			return nil
		}
	}
	m[lg+"Caller"] = func(in *Interp, fr *frame, args []Value) Value {
		return &FuncV{name: "logger.Caller$1", native: func(in *Interp, fr *frame, args []Value) Value { return "<caller>" }}
	}
	m[lg+"caller"] = func(in *Interp, fr *frame, args []Value) Value { return "<caller>" }
	// bytecode debug printers read memory only for display
	bc := "github.com/tencent/goom/internal/bytecode."
	m[bc+"PrintInst"] = noop
	m[bc+"PrintInstf"] = noop
	m["encoding/hex.EncodeToString"] = func(in *Interp, fr *frame, args []Value) Value { return "<hex>" }
	// time
	m["time.Now"] = func(in *Interp, fr *frame, args []Value) Value {
		panic(pathAbort{"unsupported: time.Now"})
	}
	addReflectStubs(m)
	return m
}

var byteSliceT = types.NewSlice(types.Typ[types.Uint8])

func bufKey(p Value) string { return fmt.Sprintf("buf:%p", ptrCell(p)) }

func (in *Interp) bufGet(p Value) Value {
	if v, ok := in.path.ghost[bufKey(p)]; ok {
		return v
	}
	return ""
}

func (in *Interp) bufAppend(fr *frame, p Value, s Value) {
	in.path.ghost[bufKey(p)] = symConcat(in.bufGet(p), s)
}

// writeTo: fmt.Fprint* into a buffer-like writer.
func (in *Interp) writeTo(fr *frame, w Value, s Value) {
	ifc, ok := w.(Iface)
	if !ok || ifc.t == nil {
		return
	}
	switch ifc.t.String() {
	case "*bytes.Buffer", "*strings.Builder":
		in.bufAppend(fr, ifc.v, s)
	}
}

// RFunc models *runtime.Func
type RFunc struct {
	pc *Term
}

func (in *Interp) atomicCell(fr *frame, p Value) *Value {
	switch x := p.(type) {
	case *Value:
		if x == nil {
			in.nilDeref(fr)
		}
		return x
	case ElemPtr:
		return &x.arr.elems[x.idx]
	case CastPtr:
		return in.atomicCell(fr, x.p)
	}
	panic(fmt.Sprintf("atomic on %T", p))
}

// pcForFn gives a deterministic concrete code token for an SSA function.
func (in *Interp) pcForFn(fn *ssa.Function) *Term {
	f := in.funcValue(fn)
	return in.funcCode(f)
}

func (in *Interp) funcNameForPC(pc *Term) Value {
	for _, f := range in.funcVals {
		if f.code == pc && f.fn != nil {
			return runtimeName(f.fn)
		}
	}
	for _, f := range in.methodExprs {
		if f.code == pc && f.fn != nil {
			return runtimeName(f.fn)
		}
	}
	if in.path != nil {
		// closures (method values among them) that got an address on this path
		for _, f := range in.path.funcsWithAddr {
			if f.code == pc && f.fn != nil {
				return runtimeName(f.fn)
			}
		}
	}
	for _, f := range in.extraFuncs {
		if f.code == pc {
			if f.fn != nil {
				return runtimeName(f.fn)
			}
			return f.name
		}
	}
	return &SymStr{tag: "funcname", args: []Value{pc}}
}

// runtimeName approximates runtime.Func.Name for an SSA function.
func runtimeName(fn *ssa.Function) string {
	// a method value x.M is a closure over the compiler's "-fm" wrapper of the method
	if strings.HasSuffix(fn.Name(), "$bound") {
		if m, ok := fn.Object().(*types.Func); ok {
			if mf := fn.Prog.FuncValue(m); mf != nil {
				return runtimeName(mf) + "-fm"
			}
		}
	}
	pkg := fn.Pkg
	if o := fn.Origin(); pkg == nil && o != nil {
		pkg = o.Pkg // instantiations of generic functions belong to no SSA package
	}
	if pkg == nil {
		return fn.String()
	}
	path := pkg.Pkg.Path()
	if recv := fn.Signature.Recv(); recv != nil {
		t := recv.Type()
		// the runtime names every instantiation of a generic type alike: T[...]
		tname := func(n *types.Named) string {
			if n.TypeArgs() != nil && n.TypeArgs().Len() > 0 {
				return n.Obj().Name() + "[...]"
			}
			return n.Obj().Name()
		}
		if p, ok := t.(*types.Pointer); ok {
			return fmt.Sprintf("%s.(*%s).%s", path, tname(p.Elem().(*types.Named)), fn.Name())
		}
		if n, ok := t.(*types.Named); ok {
			return fmt.Sprintf("%s.%s.%s", path, tname(n), fn.Name())
		}
	}
	name := fn.Name()
	if o := fn.Origin(); o != nil && o != fn {
		// instantiation of a generic function: pkg.F[...] whatever the type arguments
		return path + "." + o.Name() + "[...]"
	}
	if fn.Parent() != nil {
		// closures: pkg.outer.funcN
		return runtimeName(fn.Parent()) + "." + strings.Replace(strings.TrimPrefix(name, fn.Parent().Name()+"$"), "$", ".", -1)
	}
	return path + "." + name
}

// ---- error values ----

func (in *Interp) newError(msg string) Value {
	// *errors.errorString
	pkg := in.pkgs["errors"]
	if pkg != nil {
		if tn, ok := pkg.Pkg.Scope().Lookup("errorString").(*types.TypeName); ok {
			cell := new(Value)
			*cell = &Struct{f: []Value{msg}}
			return Iface{t: types.NewPointer(tn.Type()), v: cell}
		}
	}
	panic("errors.errorString not found")
}

func (in *Interp) runtimeError(msg string) Value {
	// a runtime.Error: modelled as *errors.errorString (implements error)
	return in.newError(msg)
}

func (in *Interp) errorf(fr *frame, format Value, args Slice) Value {
	f := mustStr(fr, format, "Errorf format")
	msg := in.sprintfStr(fr, f, args)
	// %w wrapping
	widx := -1
	argi := 0
	for i := 0; i < len(f); i++ {
		if f[i] != '%' {
			continue
		}
		i++
		for i < len(f) && strings.IndexByte("+-# 0123456789.", f[i]) >= 0 {
			i++
		}
		if i < len(f) {
			if f[i] == '%' {
				continue
			}
			if f[i] == 'w' && widx < 0 {
				widx = argi
			}
			argi++
		}
	}
	pkg := in.pkgs["fmt"]
	if widx >= 0 && widx < args.len && pkg != nil {
		if tn, ok := pkg.Pkg.Scope().Lookup("wrapError").(*types.TypeName); ok {
			inner := in.sliceGet(fr, args, widx)
			if ie, ok := inner.(Iface); ok {
				cell := new(Value)
				*cell = &Struct{f: []Value{msg, ie}}
				return Iface{t: types.NewPointer(tn.Type()), v: cell}
			}
		}
	}
	return in.newError(msgString(msg))
}

func msgString(v Value) string {
	if s, ok := v.(string); ok {
		return s
	}
	return "<symbolic message>"
}

// ---- mini formatter ----

type fmtFlags struct {
	plus, sharp bool
}

// fmtArg renders one operand as string parts.
func (in *Interp) fmtArg(fr *frame, v Value, verb byte, fl fmtFlags) []strPart {
	lit := func(s string) []strPart { return []strPart{{lit: s}} }
	switch x := v.(type) {
	case Iface:
		if x.t == nil {
			return lit("<nil>")
		}
		if verb == 'v' || verb == 's' || verb == 'w' {
			for _, mn := range []string{"Error", "String"} {
				m := in.lookupMethod(x.t, nil, mn)
				if m != nil && m.Signature.Params().Len() == 0 && m.Signature.Results().Len() == 1 &&
					isString(m.Signature.Results().At(0).Type()) && in.interpretable(m) {
					r := in.callFn(fr, m, []Value{x.v}, nil)
					if ps := partsOf(r); ps != nil {
						return ps
					}
					return lit("<symstr>")
				}
			}
		}
		if pt, isPtr := x.t.Underlying().(*types.Pointer); isPtr && (verb == 'v' || verb == 'd') {
			// fmt prints &{...} / &[...] / &map[...] for pointers to composites, else the address
			if isNilPtr(x.v) {
				return lit("<nil>")
			}
			switch pt.Elem().Underlying().(type) {
			case *types.Struct, *types.Array, *types.Slice, *types.Map:
				if in.fmtDepth < 2 {
					in.fmtDepth++
					ps := append(lit("&"), in.fmtArg(fr, Iface{t: pt.Elem(), v: in.load(fr, x.v, pt.Elem())}, verb, fl)...)
					in.fmtDepth--
					return ps
				}
			}
			a := in.addrOf(fr, x.v)
			if verb == 'd' {
				return []strPart{{t: a, verb: 'd'}}
			}
			return []strPart{{t: a, verb: 'x', sharp: true}}
		}
		if st, isStruct := x.t.Underlying().(*types.Struct); isStruct {
			if sv, ok := x.v.(*Struct); ok {
				ps := lit("{")
				for i := range sv.f {
					if i > 0 {
						ps = append(ps, strPart{lit: " "})
					}
					ps = append(ps, in.fmtArg(fr, Iface{t: st.Field(i).Type(), v: sv.f[i]}, verb, fl)...)
				}
				return append(ps, strPart{lit: "}"})
			}
		}
		if sl, isSlice := x.t.Underlying().(*types.Slice); isSlice {
			if sv, ok := x.v.(Slice); ok && !sv.img {
				ps := lit("[")
				for i := 0; i < sv.len && i < 32; i++ {
					if i > 0 {
						ps = append(ps, strPart{lit: " "})
					}
					ps = append(ps, in.fmtArg(fr, Iface{t: sl.Elem(), v: in.sliceGet(fr, sv, i)}, verb, fl)...)
				}
				return append(ps, strPart{lit: "]"})
			}
		}
		if mt, isMap := x.t.Underlying().(*types.Map); isMap {
			if mv, ok := x.v.(*MapV); ok {
				ps := lit("map[")
				first := true
				if mv != nil {
					for i := range mv.keys {
						if !mv.live[i] {
							continue
						}
						if !first {
							ps = append(ps, strPart{lit: " "})
						}
						first = false
						ps = append(ps, in.fmtArg(fr, Iface{t: mt.Key(), v: mv.keys[i]}, verb, fl)...)
						ps = append(ps, strPart{lit: ":"})
						ps = append(ps, in.fmtArg(fr, Iface{t: mt.Elem(), v: mv.vals[i]}, verb, fl)...)
					}
				}
				return append(ps, strPart{lit: "]"})
			}
		}
		_, signed, isInt := intWidth(x.t)
		if t, ok := x.v.(*Term); ok && isInt {
			if t.w == 0 {
				if c, isC := t.Const(); isC {
					return lit(strconv.FormatBool(c == 1))
				}
				return lit("<symbool>")
			}
			vb := verb
			if vb == 'c' {
				if c, isC := t.Const(); isC {
					return lit(string(rune(c)))
				}
			}
			if vb != 'x' {
				vb = 'd'
			}
			return []strPart{{t: t, signed: signed, verb: vb, plus: fl.plus, sharp: fl.sharp}}
		}
		return in.fmtArg(fr, x.v, verb, fl)
	case string:
		if verb == 'q' {
			return lit(strconv.Quote(x))
		}
		return lit(x)
	case *SymStr:
		if ps := partsOf(x); ps != nil {
			return ps
		}
		return lit("<symstr>")
	case *Term:
		vb := verb
		if vb != 'x' {
			vb = 'd'
		}
		if x.w == 0 {
			return lit("<bool>")
		}
		return []strPart{{t: x, verb: vb, plus: fl.plus, sharp: fl.sharp}}
	case *RType:
		return lit(x.String())
	case *RValue:
		// fmt prints the value a reflect.Value holds
		if x.t == nil {
			return lit("<invalid reflect.Value>")
		}
		return in.fmtArg(fr, Iface{t: x.t, v: in.rvGet(fr, x)}, verb, fl)
	case nil:
		return lit("<nil>")
	case *FuncV:
		return lit("<func>")
	case *Value:
		if x == nil {
			return lit("<nil>")
		}
		return lit("<ptr>")
	case Slice:
		ps := lit("[")
		for i := 0; i < x.len && i < 16; i++ {
			if i > 0 {
				ps = append(ps, strPart{lit: " "})
			}
			ps = append(ps, in.fmtArg(fr, in.sliceGet(fr, x, i), verb, fl)...)
		}
		return append(ps, strPart{lit: "]"})
	case FloatV:
		return lit(strconv.FormatFloat(x.v, 'g', -1, 64))
	}
	return lit(fmt.Sprintf("<%T>", v))
}

func (in *Interp) sprintfStr(fr *frame, f string, args Slice) Value {
	var parts []strPart
	var sb strings.Builder
	flush := func() {
		if sb.Len() > 0 {
			parts = append(parts, strPart{lit: sb.String()})
			sb.Reset()
		}
	}
	argi := 0
	for i := 0; i < len(f); i++ {
		if f[i] != '%' {
			sb.WriteByte(f[i])
			continue
		}
		i++
		var fl fmtFlags
		for i < len(f) && strings.IndexByte("+-# 0123456789.", f[i]) >= 0 {
			if f[i] == '+' {
				fl.plus = true
			}
			if f[i] == '#' {
				fl.sharp = true
			}
			i++
		}
		if i >= len(f) {
			break
		}
		if f[i] == '%' {
			sb.WriteByte('%')
			continue
		}
		flush()
		if argi < args.len {
			parts = append(parts, in.fmtArg(fr, in.sliceGet(fr, args, argi), f[i], fl)...)
		} else {
			parts = append(parts, strPart{lit: "%!" + string(f[i]) + "(MISSING)"})
		}
		argi++
	}
	flush()
	return symSeq(parts)
}

func (in *Interp) sprintf(fr *frame, format Value, args Slice) Value {
	if _, ok := format.(string); !ok {
		// a format string that itself contains formatted symbolic values (error messages
		// built in two steps): an opaque text
		return &SymStr{tag: "sprintf", args: []Value{format}}
	}
	return in.sprintfStr(fr, mustStr(fr, format, "Sprintf format"), args)
}

func (in *Interp) sprint(fr *frame, args Slice, sep string) Value {
	var parts []strPart
	for i := 0; i < args.len; i++ {
		if i > 0 {
			parts = append(parts, strPart{lit: sep})
		}
		parts = append(parts, in.fmtArg(fr, in.sliceGet(fr, args, i), 'v', fmtFlags{})...)
	}
	return symSeq(parts)
}

// ---- tagged symbolic strings ----

func (in *Interp) symStrEq(fr *frame, s *SymStr, c string) *Term {
	if s.tag == "seq" {
		return in.seqEq(fr, s, c)
	}
	if h, ok := in.symStrHooks[s.tag]; ok {
		return h.eq(in, fr, s, c)
	}
	switch s.tag {
	case "itoa":
		// decimal of a symbolic integer equals c iff value equals parse(c)
		n, err := strconv.ParseInt(c, 10, 64)
		if err != nil {
			return FalseT
		}
		t := s.args[0].(*Term)
		return Eq(t, BV(t.w, uint64(n)))
	}
	panic(pathAbort{"unsupported: == on symbolic string (" + s.tag + ") at " + fr.site()})
}

func (in *Interp) symStrHasPrefix(fr *frame, s *SymStr, c string) *Term {
	if s.tag == "seq" {
		return in.seqHasPrefix(fr, s, c)
	}
	if h, ok := in.symStrHooks[s.tag]; ok && h.hasPrefix != nil {
		return h.hasPrefix(in, fr, s, c)
	}
	panic(pathAbort{"unsupported: HasPrefix on symbolic string (" + s.tag + ") at " + fr.site()})
}

func (in *Interp) symStrContains(fr *frame, s *SymStr, c string) *Term {
	if s.tag == "seq" {
		return in.seqContains(fr, s, c)
	}
	if h, ok := in.symStrHooks[s.tag]; ok && h.contains != nil {
		return h.contains(in, fr, s, c)
	}
	panic(pathAbort{"unsupported: Contains on symbolic string (" + s.tag + ") at " + fr.site()})
}

func (in *Interp) symStrLen(fr *frame, s *SymStr) Value {
	panic(pathAbort{"unsupported: len of symbolic string (" + s.tag + ") at " + fr.site()})
}

type symStrHook struct {
	eq        func(in *Interp, fr *frame, s *SymStr, c string) *Term
	hasPrefix func(in *Interp, fr *frame, s *SymStr, c string) *Term
	contains  func(in *Interp, fr *frame, s *SymStr, c string) *Term
}
