package main

// Threads: verifSpawn registers thread bodies, verifJoin runs them to completion under a
// scheduler whose every choice is a decision of the path (so the solver/DFS enumerates
// interleavings). Context switches happen only before "visible operations": sync/atomic
// calls, mutex operations, Once.Do and explicit verifYield. Plain memory accesses are
// checked by a happens-before (vector clock) race detector, which is exact for the set of
// explored synchronisation orders.

import (
	"fmt"
)

type mutexState struct {
	writer  int // thread id holding write lock (-1 = main thread), noWriter none
	readers map[int]int
	clock   vclock // release clock
	rclock  vclock // release clock of readers
}

const noWriter = -100

type vclock []int

func (a vclock) join(b vclock) vclock {
	n := len(a)
	if len(b) > n {
		n = len(b)
	}
	r := make(vclock, n)
	for i := range r {
		if i < len(a) {
			r[i] = a[i]
		}
		if i < len(b) && b[i] > r[i] {
			r[i] = b[i]
		}
	}
	return r
}

func (a vclock) leq(b vclock) bool {
	for i, v := range a {
		if v == 0 {
			continue
		}
		if i >= len(b) || b[i] < v {
			return false
		}
	}
	return true
}

type access struct {
	wT    int // last writer thread (-1 none)
	wC    int // its clock component
	wSite string
	reads map[int]int // thread -> clock
	rSite map[int]string
}

type pendingOp struct {
	kind string // "lock","rlock","unlock","runlock","atomic","once","yield","start"
	mu   *Value
}

type thread struct {
	id      int
	fn      *FuncV
	resume  chan bool // true = go on, false = killed
	yielded chan struct{}
	done    bool
	started bool
	top     *frame
	pending pendingOp
	clock   vclock
	err     interface{} // panic that ended the thread (path control or goPanic)
	// call tracking for happens-before between calls (C05)
	events []threadEvent
}

type threadEvent struct {
	step int
	what string
}

type threadKilled struct{}

type threadState struct {
	in       *Interp
	threads  []*thread
	schedule []int
	steps    int
	mutexes  map[*Value]*mutexState
	onces    map[*Value]*onceState
	acc      map[*Value]*access
	cur      *thread
	running  bool
	atomics  map[*Value]vclock
	imgCells map[*Term]*Value // race-detector pseudo cells of image regions (by base address term)
}

type onceState struct {
	done    bool
	running int // thread id running f, -1
	clock   vclock
}

func (in *Interp) ts() *threadState {
	p := in.path
	if p.threads == nil {
		p.threads = &threadState{in: in, mutexes: map[*Value]*mutexState{}, onces: map[*Value]*onceState{},
			acc: map[*Value]*access{}, atomics: map[*Value]vclock{}}
	}
	return p.threads
}

func (ts *threadState) killAll() {
	for _, t := range ts.threads {
		if t.started && !t.done {
			t.done = true
			t.resume <- false
		}
	}
}

func (ts *threadState) mutex(p *Value) *mutexState {
	m, ok := ts.mutexes[p]
	if !ok {
		m = &mutexState{writer: noWriter, readers: map[int]int{}}
		ts.mutexes[p] = m
	}
	return m
}

func (in *Interp) spawn(f *FuncV) {
	ts := in.ts()
	if ts.running {
		panic(pathAbort{"unsupported: verifSpawn inside a thread"})
	}
	t := &thread{id: len(ts.threads), fn: f, resume: make(chan bool), yielded: make(chan struct{})}
	ts.threads = append(ts.threads, t)
}

func (ts *threadState) enabled(t *thread) bool {
	if t.done {
		return false
	}
	switch t.pending.kind {
	case "lock":
		m := ts.mutex(t.pending.mu)
		return m.writer == noWriter && len(m.readers) == 0
	case "rlock":
		m := ts.mutex(t.pending.mu)
		return m.writer == noWriter
	case "oncewait":
		o := ts.onces[t.pending.mu]
		return o.done
	}
	return true
}

// join runs all spawned threads to completion under all schedules.
func (in *Interp) join(fr *frame) {
	ts := in.ts()
	n := len(ts.threads)
	for _, t := range ts.threads {
		if t.clock == nil {
			t.clock = make(vclock, n)
			t.clock[t.id] = 1
			t.pending = pendingOp{kind: "start"}
		}
	}
	ts.running = true
	// every thread first runs, without a scheduling decision, up to its first visible
	// operation: that prefix touches no shared mutable state (checked by the race detector)
	for _, t := range ts.threads {
		if !t.started {
			t.started = true
			ts.cur = t
			go in.threadMain(ts, t)
			t.resume <- true
			<-t.yielded
			ts.cur = nil
			if t.err != nil {
				e := t.err
				t.err = nil
				ts.running = false
				panic(e)
			}
		}
	}
	for {
		var en []*thread
		alive := 0
		for _, t := range ts.threads {
			if !t.done {
				alive++
				if ts.enabled(t) {
					en = append(en, t)
				}
			}
		}
		if alive == 0 {
			break
		}
		if len(en) == 0 {
			ts.running = false
			in.deadlock(fr)
			return
		}
		// reduction: a thread whose pending op is "start" and others... keep it simple: choose.
		k := in.choose(len(en), "schedule")
		t := en[k]
		ts.schedule = append(ts.schedule, t.id)
		ts.steps++
		ts.cur = t
		if !t.started {
			t.started = true
			go in.threadMain(ts, t)
		}
		t.resume <- true
		<-t.yielded
		ts.cur = nil
		if t.err != nil {
			e := t.err
			t.err = nil
			ts.running = false
			panic(e)
		}
	}
	ts.running = false
	// all threads finished: main continues, ordered after all of them
	in.path.lastSchedule = append([]int(nil), ts.schedule...)
	ts.threads = nil
}

func (in *Interp) threadMain(ts *threadState, t *thread) {
	defer func() {
		r := recover()
		t.done = true
		if _, killed := r.(threadKilled); killed {
			return
		}
		if r != nil {
			t.err = r
		}
		t.yielded <- struct{}{}
	}()
	if !<-t.resume {
		panic(threadKilled{})
	}
	root := &frame{in: in, thread: t}
	root.fn = nil
	t.top = root
	in.callThreadFn(root, t.fn)
}

func (in *Interp) callThreadFn(root *frame, f *FuncV) {
	// root frame has no fn; callSSA only needs caller.thread/depth
	if f.native != nil {
		f.native(in, root, nil)
		return
	}
	in.callSSA(root, f.fn, nil, f.env)
}

// yield is called by a thread before a visible operation.
func (in *Interp) yield(fr *frame, op pendingOp) {
	t := fr.thread
	if t == nil {
		return
	}
	ts := in.path.threads
	t.pending = op
	t.yielded <- struct{}{}
	if !<-t.resume {
		panic(threadKilled{})
	}
	t.pending = pendingOp{}
	_ = ts
}

func (in *Interp) deadlock(fr *frame) {
	id := in.harness + ".no-deadlock"
	in.assertIDs[id] = true
	in.stats.Asserts++
	in.reportViolation(id, "", fr.site(), "deadlock", fmt.Sprintf("deadlock: schedule %v", in.path.threads.schedule), nil)
	panic(pathEnd{"deadlock"})
}

func curTid(fr *frame) int {
	if fr.thread == nil {
		return -1
	}
	return fr.thread.id
}

// ---- happens-before race detection ----

func (in *Interp) raceAccess(fr *frame, p *Value, write bool) {
	if fr == nil {
		return
	}
	t := fr.thread
	if t == nil || in.path.threads == nil || !in.path.threads.running {
		return
	}
	ts := in.path.threads
	a, ok := ts.acc[p]
	if !ok {
		a = &access{wT: -1, reads: map[int]int{}, rSite: map[int]string{}}
		ts.acc[p] = a
	}
	// previous write must happen-before this access
	if a.wT >= 0 && a.wT != t.id && t.clock[a.wT] < a.wC {
		in.race(fr, a.wSite, fr.site(), write)
	}
	if write {
		for rt, rc := range a.reads {
			if rt != t.id && t.clock[rt] < rc {
				in.race(fr, a.rSite[rt], fr.site(), write)
			}
		}
		a.wT, a.wC, a.wSite = t.id, t.clock[t.id], fr.site()
		a.reads = map[int]int{}
		a.rSite = map[int]string{}
	} else {
		a.reads[t.id] = t.clock[t.id]
		a.rSite[t.id] = fr.site()
	}
}

func (in *Interp) race(fr *frame, s1, s2 string, write bool) {
	id := in.harness + ".no-data-race"
	in.assertIDs[id] = true
	in.stats.Asserts++
	in.reportViolation(id, "", s2, "race", fmt.Sprintf("data race between %s and %s; schedule %v", s1, s2, in.path.threads.schedule), nil)
}

func (t *thread) tick() { t.clock[t.id]++ }

// ---- sync models ----

func ptrCell(v Value) *Value {
	switch p := v.(type) {
	case *Value:
		return p
	case CastPtr:
		return ptrCell(p.p)
	}
	panic(fmt.Sprintf("sync object pointer is %T", v))
}

func (in *Interp) mutexLock(fr *frame, mu *Value, kind string) {
	ts := in.ts()
	m := ts.mutex(mu)
	tid := curTid(fr)
	if fr.thread != nil {
		in.yield(fr, pendingOp{kind: kind, mu: mu})
	}
	if kind == "lock" {
		if m.writer != noWriter || len(m.readers) > 0 {
			// single-threaded self deadlock (threads never get here: disabled)
			in.deadlock(fr)
		}
		m.writer = tid
		if fr.thread != nil {
			fr.thread.clock = fr.thread.clock.join(m.clock).join(m.rclock)
		}
	} else {
		if m.writer != noWriter {
			in.deadlock(fr)
		}
		m.readers[tid]++
		if fr.thread != nil {
			fr.thread.clock = fr.thread.clock.join(m.clock)
		}
	}
}

func (in *Interp) mutexUnlock(fr *frame, mu *Value, kind string) {
	ts := in.ts()
	m := ts.mutex(mu)
	tid := curTid(fr)
	// releases are left movers: no scheduling point is needed before them
	if kind == "unlock" {
		if m.writer == noWriter {
			panic(&goPanic{val: "fatal error: sync: unlock of unlocked mutex", kind: "sync", site: fr.site()})
		}
		m.writer = noWriter
		if fr.thread != nil {
			m.clock = fr.thread.clock.join(nil)
			fr.thread.tick()
		}
	} else {
		if m.readers[tid] == 0 {
			// RUnlock by another goroutine is legal in Go; find any reader
			found := false
			for k, v := range m.readers {
				if v > 0 {
					m.readers[k]--
					if m.readers[k] == 0 {
						delete(m.readers, k)
					}
					found = true
					break
				}
			}
			if !found {
				panic(&goPanic{val: "fatal error: sync: RUnlock of unlocked RWMutex", kind: "sync", site: fr.site()})
			}
		} else {
			m.readers[tid]--
			if m.readers[tid] == 0 {
				delete(m.readers, tid)
			}
		}
		if fr.thread != nil {
			m.rclock = m.rclock.join(fr.thread.clock)
			fr.thread.tick()
		}
	}
}

func (in *Interp) atomicSync(fr *frame, p *Value) {
	// sequentially consistent atomics: acquire+release on the location
	if fr.thread == nil {
		return
	}
	in.yield(fr, pendingOp{kind: "atomic"})
	ts := in.path.threads
	c := ts.atomics[p]
	fr.thread.clock = fr.thread.clock.join(c)
	ts.atomics[p] = fr.thread.clock.join(nil)
	fr.thread.tick()
}

func (in *Interp) onceDo(fr *frame, o *Value, f Value) {
	ts := in.ts()
	st, ok := ts.onces[o]
	if !ok {
		st = &onceState{running: -1}
		ts.onces[o] = st
	}
	if fr.thread != nil {
		in.yield(fr, pendingOp{kind: "once"})
	}
	if st.done {
		if fr.thread != nil {
			fr.thread.clock = fr.thread.clock.join(st.clock)
		}
		return
	}
	if st.running >= 0 || (st.running == -2) {
		if fr.thread == nil {
			in.deadlock(fr)
		}
		// wait until done
		in.yield(fr, pendingOp{kind: "oncewait", mu: o})
		fr.thread.clock = fr.thread.clock.join(st.clock)
		return
	}
	if fr.thread != nil {
		st.running = fr.thread.id
	} else {
		st.running = -2
	}
	in.call(fr, f, nil)
	st.done = true
	st.running = -1
	if fr.thread != nil {
		st.clock = fr.thread.clock.join(nil)
		fr.thread.tick()
	}
}

// imgRace: happens-before race detection for raw image accesses, at the granularity of
// the base address term (accesses t+k and t+j belong to the same region).
func (in *Interp) imgRace(fr *frame, addr *Term, write bool) {
	if fr == nil || fr.thread == nil || in.path.threads == nil || !in.path.threads.running {
		return
	}
	ts := in.path.threads
	base, _ := splitBase(addr)
	if base == nil {
		base = addr
	}
	if ts.imgCells == nil {
		ts.imgCells = map[*Term]*Value{}
	}
	c, ok := ts.imgCells[base]
	if !ok {
		c = new(Value)
		ts.imgCells[base] = c
	}
	in.raceAccess(fr, c, write)
}
