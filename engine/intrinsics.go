package main

// Harness intrinsics (functions named verif* declared in zz_verif*.go files).

import (
	"fmt"
	"hash/fnv"
	"strings"
)

func argStr(v Value) string {
	s, ok := v.(string)
	if !ok {
		panic(fmt.Sprintf("intrinsic: string argument must be concrete, got %T", v))
	}
	return s
}

func argInt(v Value) int {
	c, ok := v.(*Term).SConst()
	if !ok {
		panic("intrinsic: int argument must be concrete")
	}
	return int(c)
}

func (in *Interp) nondet(name string, w int) *Term {
	p := in.path
	if t, ok := p.nondets[name]; ok {
		return t
	}
	var t *Term
	if w == 0 {
		t = BoolVar(name)
	} else {
		t = Var(w, name)
	}
	p.nondets[name] = t
	p.nondetOrd = append(p.nondetOrd, name)
	return t
}

func intrinsicTable() map[string]func(in *Interp, fr *frame, args []Value) Value {
	m := map[string]func(in *Interp, fr *frame, args []Value) Value{}
	nd := func(w int) func(in *Interp, fr *frame, args []Value) Value {
		return func(in *Interp, fr *frame, args []Value) Value { return in.nondet(argStr(args[0]), w) }
	}
	m["verifU64"] = nd(64)
	m["verifU32"] = nd(32)
	m["verifU16"] = nd(16)
	m["verifU8"] = nd(8)
	m["verifInt"] = func(in *Interp, fr *frame, args []Value) Value { return in.nondet(argStr(args[0]), wordBits) }
	m["verifUintptr"] = m["verifInt"]
	m["verifI32"] = nd(32)
	m["verifBool"] = nd(0)
	m["verifBytes"] = func(in *Interp, fr *frame, args []Value) Value {
		name, n := argStr(args[0]), argInt(args[1])
		a := newArr(n)
		for i := 0; i < n; i++ {
			a.elems[i] = in.nondet(fmt.Sprintf("%s[%d]", name, i), 8)
		}
		return Slice{arr: a, len: n, cap: n}
	}
	m["verifChoice"] = func(in *Interp, fr *frame, args []Value) Value {
		name, n := argStr(args[0]), argInt(args[1])
		k := in.choose(n, name)
		in.path.notes = append(in.path.notes, fmt.Sprintf("%s=%d", name, k))
		if _, ok := in.path.nondets[name]; !ok {
			in.path.nondets[name] = BV(64, uint64(k))
			in.path.nondetOrd = append(in.path.nondetOrd, name)
		}
		return BV(wordBits, uint64(k))
	}
	m["verifAssume"] = func(in *Interp, fr *frame, args []Value) Value {
		c := args[0].(*Term)
		if c == TrueT {
			return nil
		}
		if c == FalseT {
			panic(pathEnd{"assume false"})
		}
		p := in.path
		if v, ok := p.known(c); ok {
			if !v {
				panic(pathEnd{"assume false"})
			}
			return nil
		}
		// feasibility
		if p.dpos < len(p.dec) {
			d := p.dec[p.dpos]
			p.dpos++
			if d.choice == 0 {
				panic(pathEnd{"assume infeasible"})
			}
			p.addPC(c)
			return nil
		}
		r, _ := in.solver.Check(p.pc, c, nil)
		d := &decision{n: 2, forced: true, choice: 1}
		if r == Unsat {
			d.choice = 0
		}
		p.dec = append(p.dec, d)
		p.dpos++
		if d.choice == 0 {
			panic(pathEnd{"assume infeasible"})
		}
		p.addPC(c)
		return nil
	}
	m["verifAssert"] = func(in *Interp, fr *frame, args []Value) Value {
		in.assert(fr, args[0].(*Term), argStr(args[1]), "")
		return nil
	}
	m["verifAssertClass"] = func(in *Interp, fr *frame, args []Value) Value {
		in.assert(fr, args[0].(*Term), argStr(args[1]), argStr(args[2]))
		return nil
	}
	m["verifReached"] = func(in *Interp, fr *frame, args []Value) Value {
		id := argStr(args[0])
		for _, r := range in.stats.Reached {
			if r == id {
				return nil
			}
		}
		// confirm the path condition is satisfiable (reachability witness)
		r, _ := in.solver.Check(in.path.pc, nil, nil)
		if r == Sat {
			in.stats.Reached = append(in.stats.Reached, id)
		}
		return nil
	}
	m["verifWitness"] = func(in *Interp, fr *frame, args []Value) Value {
		in.path.witnesses = append(in.path.witnesses, witness{name: argStr(args[0]), t: args[1].(*Term)})
		return nil
	}
	m["verifSpawn"] = func(in *Interp, fr *frame, args []Value) Value {
		in.spawn(args[0].(*FuncV))
		return nil
	}
	m["verifJoin"] = func(in *Interp, fr *frame, args []Value) Value {
		in.join(fr)
		return nil
	}
	m["verifYield"] = func(in *Interp, fr *frame, args []Value) Value {
		in.yield(fr, pendingOp{kind: "yield"})
		return nil
	}
	m["verifStep"] = func(in *Interp, fr *frame, args []Value) Value {
		// global scheduler step counter (for happens-before between calls)
		if in.path.threads == nil {
			return BV(wordBits, 0)
		}
		return BV(wordBits, uint64(in.path.threads.steps))
	}
	m["verifTid"] = func(in *Interp, fr *frame, args []Value) Value {
		return BV(wordBits, uint64(int64(curTid(fr))))
	}
	// process image
	m["verifImgLoad"] = func(in *Interp, fr *frame, args []Value) Value {
		return in.imgLoad(ZExt(args[0].(*Term), 64), 1)
	}
	m["verifImgLoad64"] = func(in *Interp, fr *frame, args []Value) Value {
		return in.imgLoadW(args[0].(*Term), 8)
	}
	m["verifImgLoad32"] = func(in *Interp, fr *frame, args []Value) Value {
		return in.imgLoadW(args[0].(*Term), 4)
	}
	m["verifImgStore"] = func(in *Interp, fr *frame, args []Value) Value {
		in.imgStore(ZExt(args[0].(*Term), 64), args[1].(*Term))
		return nil
	}
	m["verifImgSnap"] = func(in *Interp, fr *frame, args []Value) Value {
		p := in.path
		k := fmt.Sprintf("imgsnap%d", len(p.ghost))
		p.ghost[k] = p.image
		p.snaps = append(p.snaps, p.image)
		return BV(wordBits, uint64(len(p.snaps)-1))
	}
	m["verifImgAt"] = func(in *Interp, fr *frame, args []Value) Value {
		h := argInt(args[0])
		return Select(in.path.snaps[h], ZExt(args[1].(*Term), 64))
	}
	m["verifImgWrites"] = func(in *Interp, fr *frame, args []Value) Value {
		return BV(wordBits, uint64(in.path.imgWrites))
	}
	m["verifImgBytesWritten"] = func(in *Interp, fr *frame, args []Value) Value {
		return BV(wordBits, uint64(len(in.path.imgLog)))
	}
	m["verifImgWriteAddr"] = func(in *Interp, fr *frame, args []Value) Value {
		i := argInt(args[0])
		return Resize(in.path.imgLog[i], wordBits, false)
	}
	m["verifImgDistinctWritten"] = func(in *Interp, fr *frame, args []Value) Value {
		return BV(wordBits, uint64(len(in.path.imgUniq)))
	}
	m["verifImgDistinctAddr"] = func(in *Interp, fr *frame, args []Value) Value {
		return Resize(in.path.imgUniq[argInt(args[0])], wordBits, false)
	}
	m["verifApart"] = func(in *Interp, fr *frame, args []Value) Value {
		a, b := args[0].(*Term), args[1].(*Term)
		n := uint64(argInt(args[2]))
		nn := BV(a.w, n)
		// both regions lie below 2^47, so a+n and b+n do not wrap
		c := BAnd(BAnd(Ult(a, BV(a.w, 1<<47)), Ult(b, BV(b.w, 1<<47))), BOr(Uge(b, Add(a, nn)), Uge(a, Add(b, nn))))
		in.intrinsics["verifAssume"](in, fr, []Value{c})
		if farFacts == nil {
			farFacts = map[[2]*Term]uint64{}
		}
		farFacts[[2]*Term{a, b}] = n
		farFacts[[2]*Term{b, a}] = n
		return nil
	}
	m["verifOr"] = func(in *Interp, fr *frame, args []Value) Value { return BOr(args[0].(*Term), args[1].(*Term)) }
	m["verifAnd"] = func(in *Interp, fr *frame, args []Value) Value { return BAnd(args[0].(*Term), args[1].(*Term)) }
	m["verifImplies"] = func(in *Interp, fr *frame, args []Value) Value { return BImp(args[0].(*Term), args[1].(*Term)) }
	m["verifIte"] = func(in *Interp, fr *frame, args []Value) Value {
		return Ite(args[0].(*Term), args[1].(*Term), args[2].(*Term))
	}
	m["verifSliceAddr"] = func(in *Interp, fr *frame, args []Value) Value {
		s := args[0].(Slice)
		if !s.img {
			panic(pathAbort{"verifSliceAddr on heap slice"})
		}
		return s.addr
	}
	m["verifIsImg"] = func(in *Interp, fr *frame, args []Value) Value {
		s := args[0].(Slice)
		return Bool(s.img)
	}
	m["verifImgSlice"] = func(in *Interp, fr *frame, args []Value) Value {
		n := argInt(args[1])
		return Slice{img: true, addr: args[0].(*Term), len: n, cap: n}
	}
	m["verifFuncAddr"] = func(in *Interp, fr *frame, args []Value) Value {
		// data address of a func value (pointer to its funcval)
		f := ifaceFunc(args[0])
		return in.funcAddr(f)
	}
	m["verifRunInit"] = func(in *Interp, fr *frame, args []Value) Value {
		// run the n-th declared init function of the package under test on the current path
		n := argInt(args[0])
		f := fr.fn.Pkg.Func(fmt.Sprintf("init#%d", n))
		if f == nil {
			panic(pathAbort{fmt.Sprintf("verifRunInit: no init#%d in %s", n, fr.fn.Pkg.Pkg.Path())})
		}
		in.callSSA(fr, f, nil, nil)
		return Bool(true)
	}
	m["verifFuncCode"] = func(in *Interp, fr *frame, args []Value) Value {
		f := ifaceFunc(args[0])
		return in.funcCode(f)
	}
	m["verifFuncAt"] = func(in *Interp, fr *frame, args []Value) Value {
		// the func value living at data address dx (nil interface if none is known there)
		dx := args[0].(*Term)
		if f, ok := in.addrs.byFuncAddr[dx]; ok {
			return Iface{t: f.typ, v: f}
		}
		for _, f := range in.path.funcsWithAddr {
			if f.addr == nil {
				continue
			}
			r, _ := in.solver.Check(in.path.pc, Ne(dx, f.addr), nil)
			if r == Unsat {
				return Iface{t: f.typ, v: f}
			}
		}
		return Iface{}
	}
	m["verifReachable"] = func(in *Interp, fr *frame, args []Value) Value {
		// is the func value target reachable in the heap graph from root (a pointer or value)?
		target := ifaceFunc(args[1])
		return Bool(in.reachable(args[0], target))
	}
	m["verifNote"] = func(in *Interp, fr *frame, args []Value) Value {
		in.path.notes = append(in.path.notes, argStr(args[0]))
		return nil
	}
	m["verifIsConcrete"] = func(in *Interp, fr *frame, args []Value) Value {
		t, ok := args[0].(*Term)
		return Bool(ok && t.IsConst())
	}
	m["verifDump"] = func(in *Interp, fr *frame, args []Value) Value {
		fmt.Printf("DUMP %s: %s\n", argStr(args[0]), valString(args[1]))
		return nil
	}
	m["verifPanicked"] = func(in *Interp, fr *frame, args []Value) Value {
		// number of panics recovered so far on this path
		return BV(wordBits, uint64(len(in.path.recovered)))
	}
	m["verifSymIntString"] = func(in *Interp, fr *frame, args []Value) Value {
		return &SymStr{tag: "itoa", args: []Value{args[0]}}
	}
	return m
}

func ifaceFunc(v Value) *FuncV {
	switch x := v.(type) {
	case *FuncV:
		return x
	case Iface:
		return ifaceFunc(x.v)
	}
	panic(fmt.Sprintf("expected func value, got %T", v))
}

// assert decides PC ∧ ¬c.
func (in *Interp) assert(fr *frame, c *Term, id string, class string) {
	in.assertIDs[id] = true
	in.stats.Asserts++
	if c == TrueT {
		in.stats.Trivial++
		return
	}
	p := in.path
	if v, ok := p.known(c); ok && v {
		in.stats.Trivial++
		return
	}
	neg := BNot(c)
	r, _ := in.solver.Check(p.pc, neg, nil)
	in.noteQuery(p.pc, neg, id, r == Unsat)
	switch r {
	case Unsat:
		in.stats.Discharged++
		p.addPC(c)
	case Unknown:
		in.stats.Unknown++
		in.stats.AbortReasons = appendUniq(in.stats.AbortReasons, "solver unknown on assertion "+id)
	case Sat:
		in.reportViolation(id, class, fr.site(), "assert", strings.Join(p.notes, ","), neg)
		// continue the path under the assertion when possible
		r2, _ := in.solver.Check(p.pc, c, nil)
		if r2 == Unsat {
			panic(pathEnd{"assertion always false"})
		}
		p.addPC(c)
	}
}

func (in *Interp) noteQuery(pc []*Term, extra *Term, id string, discharged bool) {
	h := fnv.New64a()
	for _, c := range pc {
		fmt.Fprintf(h, "%d,", c.id)
	}
	fmt.Fprintf(h, "|%d", extra.id)
	in.queryHashes[h.Sum64()] = true
	// only discharged obligations are dumped (they are re-decided by the other solvers)
	if _, ok := in.queryDump[id]; !ok && discharged && len(in.queryDump) < 64 {
		in.queryDump[id] = QueryText(pc, extra)
	}
}

// imgLoadW: multi-byte little-endian load whose per-byte addresses are computed in the
// address width of the target (wraps at 2^32 on 386) and then zero-extended.
func (in *Interp) imgLoadW(addr *Term, nbytes int) *Term {
	if addr.w == 64 {
		return in.imgLoad(addr, nbytes)
	}
	var res *Term
	for i := nbytes - 1; i >= 0; i-- {
		b := Select(in.path.image, ZExt(Add(addr, BV(addr.w, uint64(i))), 64))
		if res == nil {
			res = b
		} else {
			res = Concat(res, b)
		}
	}
	return res
}

// reachable walks the engine's heap graph.
func (in *Interp) reachable(root Value, target *FuncV) bool {
	seenCell := map[*Value]bool{}
	seenObj := map[interface{}]bool{}
	var walk func(v Value, depth int) bool
	walk = func(v Value, depth int) bool {
		if depth > 64 {
			return false
		}
		switch x := v.(type) {
		case nil, *Term, string, *SymStr, FloatV:
			return false
		case *FuncV:
			if x == nil {
				return false
			}
			if x == target {
				return true
			}
			if seenObj[x] {
				return false
			}
			seenObj[x] = true
			for _, e := range x.env {
				if walk(e, depth+1) {
					return true
				}
			}
			if x.makeFuncImpl != nil {
				return walk(x.makeFuncImpl, depth+1)
			}
			return false
		case *Value:
			if x == nil || seenCell[x] {
				return false
			}
			seenCell[x] = true
			return walk(*x, depth+1)
		case *Struct:
			if x == nil || seenObj[x] {
				return false
			}
			seenObj[x] = true
			for _, f := range x.f {
				if walk(f, depth+1) {
					return true
				}
			}
		case *ArrObj:
			if x == nil || seenObj[x] {
				return false
			}
			seenObj[x] = true
			for _, e := range x.elems {
				if walk(e, depth+1) {
					return true
				}
			}
		case Slice:
			if x.img || x.nilS || x.arr == nil {
				return false
			}
			return walk(x.arr, depth+1)
		case ElemPtr:
			return walk(x.arr, depth+1)
		case Iface:
			return walk(x.v, depth+1)
		case FabIface:
			return walk(x.tab, depth+1) || walk(x.data, depth+1)
		case CastPtr:
			return walk(x.p, depth+1)
		case *MapV:
			if x == nil || seenObj[x] {
				return false
			}
			seenObj[x] = true
			for i := range x.keys {
				if x.live[i] && (walk(x.keys[i], depth+1) || walk(x.vals[i], depth+1)) {
					return true
				}
			}
		case *RValue:
			if x == nil {
				return false
			}
			return walk(x.v, depth+1) || walk(x.ptr, depth+1)
		case Tuple:
			for _, e := range x {
				if walk(e, depth+1) {
					return true
				}
			}
		}
		return false
	}
	return walk(root, 0)
}
