package main

// Known-bits (ternary) domain for single-variable conditions over wide variables (e.g.
// one 32-bit instruction word): every term over the variable is evaluated abstractly to
// (known mask, known value); a condition whose value is fully known is decided without
// the solver, anything else forks both ways (an over-approximation of feasibility: paths
// that are in fact infeasible die at their first solver query, and panics reached on
// them are discarded after a satisfiability check of the full path condition).

type kbits struct {
	mask, val uint64 // bit i known iff mask bit i set; then its value is val bit i
}

func (p *Path) varKnown(v *Term) kbits {
	if p.kb == nil {
		return kbits{}
	}
	return p.kb[v]
}

// tern evaluates t abstractly. ok=false: unsupported shape.
func (p *Path) tern(t *Term, memo map[*Term]kbits) (kbits, bool) {
	if r, ok := memo[t]; ok {
		return r, true
	}
	var r kbits
	w := t.w
	if w == 0 {
		w = 1
	}
	full := mask(w)
	un := func(i int) (kbits, bool) { return p.tern(t.args[i], memo) }
	switch t.op {
	case OpConst, OpBConst:
		r = kbits{full, t.val}
	case OpVar:
		r = p.varKnown(t)
	case OpAnd, OpBAnd:
		a, ok1 := un(0)
		b, ok2 := un(1)
		if !ok1 || !ok2 {
			return kbits{}, false
		}
		zero := (a.mask &^ a.val) | (b.mask &^ b.val) // known 0 on either side
		one := a.mask & a.val & b.mask & b.val
		r = kbits{zero | one, one}
	case OpOr, OpBOr:
		a, ok1 := un(0)
		b, ok2 := un(1)
		if !ok1 || !ok2 {
			return kbits{}, false
		}
		one := (a.mask & a.val) | (b.mask & b.val)
		zero := (a.mask &^ a.val) & (b.mask &^ b.val)
		r = kbits{zero | one, one}
	case OpXor:
		a, ok1 := un(0)
		b, ok2 := un(1)
		if !ok1 || !ok2 {
			return kbits{}, false
		}
		m := a.mask & b.mask
		r = kbits{m, (a.val ^ b.val) & m}
	case OpNot:
		a, ok := un(0)
		if !ok {
			return kbits{}, false
		}
		r = kbits{a.mask, ^a.val & a.mask}
	case OpBNot:
		a, ok := un(0)
		if !ok {
			return kbits{}, false
		}
		r = kbits{a.mask & 1, (^a.val) & a.mask & 1}
	case OpShl, OpLShr:
		c, isC := t.args[1].Const()
		a, ok := un(0)
		if !ok || !isC {
			return kbits{}, false
		}
		if c >= uint64(w) {
			r = kbits{full, 0}
		} else if t.op == OpShl {
			r = kbits{(a.mask<<c | mask(int(c))) & full, (a.val << c) & full}
		} else {
			r = kbits{(a.mask >> c) | (full &^ (full >> c)), a.val >> c}
		}
	case OpExtract:
		a, ok := un(0)
		if !ok {
			return kbits{}, false
		}
		lo := uint(t.val & 0xff)
		r = kbits{(a.mask >> lo) & full, (a.val >> lo) & full}
	case OpZExt:
		a, ok := un(0)
		if !ok {
			return kbits{}, false
		}
		iw := t.args[0].w
		r = kbits{a.mask | (full &^ mask(iw)), a.val}
	case OpSExt:
		a, ok := un(0)
		if !ok {
			return kbits{}, false
		}
		iw := t.args[0].w
		r = kbits{a.mask & mask(iw), a.val & mask(iw)}
		if a.mask&(1<<uint(iw-1)) != 0 { // sign known
			hi := full &^ mask(iw)
			r.mask |= hi
			if a.val&(1<<uint(iw-1)) != 0 {
				r.val |= hi
			}
		}
	case OpConcat:
		a, ok1 := un(0)
		b, ok2 := un(1)
		if !ok1 || !ok2 {
			return kbits{}, false
		}
		lw := uint(t.args[1].w)
		r = kbits{a.mask<<lw | b.mask, a.val<<lw | b.val}
	case OpEq, OpBEq:
		a, ok1 := un(0)
		b, ok2 := un(1)
		if !ok1 || !ok2 {
			return kbits{}, false
		}
		aw := t.args[0].w
		if aw == 0 {
			aw = 1
		}
		af := mask(aw)
		both := a.mask & b.mask & af
		if (a.val^b.val)&both != 0 {
			r = kbits{1, 0} // differ in a known bit
		} else if a.mask&af == af && b.mask&af == af {
			r = kbits{1, 1}
		}
	case OpUlt, OpUle:
		a, ok1 := un(0)
		b, ok2 := un(1)
		if !ok1 || !ok2 {
			return kbits{}, false
		}
		aw := mask(t.args[0].w)
		amin, amax := a.val&a.mask, (a.val&a.mask)|(aw&^a.mask)
		bmin, bmax := b.val&b.mask, (b.val&b.mask)|(aw&^b.mask)
		if t.op == OpUlt {
			if amax < bmin {
				r = kbits{1, 1}
			} else if amin >= bmax {
				r = kbits{1, 0}
			}
		} else {
			if amax <= bmin {
				r = kbits{1, 1}
			} else if amin > bmax {
				r = kbits{1, 0}
			}
		}
	case OpIte, OpBIte:
		c, ok0 := un(0)
		a, ok1 := un(1)
		b, ok2 := un(2)
		if !ok0 || !ok1 || !ok2 {
			return kbits{}, false
		}
		if c.mask&1 == 1 {
			if c.val&1 == 1 {
				r = a
			} else {
				r = b
			}
		} else {
			m := a.mask & b.mask &^ (a.val ^ b.val)
			r = kbits{m, a.val & m}
		}
	case OpAdd, OpSub:
		a, ok1 := un(0)
		b, ok2 := un(1)
		if !ok1 || !ok2 {
			return kbits{}, false
		}
		if a.mask&full == full && b.mask&full == full {
			if t.op == OpAdd {
				r = kbits{full, (a.val + b.val) & full}
			} else {
				r = kbits{full, (a.val - b.val) & full}
			}
		} else {
			// low bits known on both sides up to the first unknown bit
			k := uint64(0)
			for i := 0; i < w; i++ {
				if a.mask&(1<<uint(i)) == 0 || b.mask&(1<<uint(i)) == 0 {
					break
				}
				k |= 1 << uint(i)
			}
			if t.op == OpAdd {
				r = kbits{k, (a.val + b.val) & k}
			} else {
				r = kbits{k, (a.val - b.val) & k}
			}
		}
	default:
		return kbits{}, false
	}
	r.val &= r.mask
	memo[t] = r
	return r, true
}

// refine pushes "t has known bits kb" down to the variable.
func (p *Path) refine(t *Term, kb kbits) {
	if kb.mask == 0 {
		return
	}
	switch t.op {
	case OpVar:
		if p.kb == nil {
			p.kb = map[*Term]kbits{}
		}
		cur := p.kb[t]
		cur.val = (cur.val & cur.mask) | (kb.val & kb.mask &^ cur.mask)
		cur.mask |= kb.mask
		p.kb[t] = cur
	case OpAnd:
		if c, ok := t.args[1].Const(); ok {
			// result bits under the mask are the operand's bits
			p.refine(t.args[0], kbits{kb.mask & c, kb.val & c})
		} else if c, ok := t.args[0].Const(); ok {
			p.refine(t.args[1], kbits{kb.mask & c, kb.val & c})
		}
	case OpOr:
		if c, ok := t.args[1].Const(); ok {
			p.refine(t.args[0], kbits{kb.mask &^ c, kb.val &^ c})
		}
	case OpLShr:
		if c, ok := t.args[1].Const(); ok && c < uint64(t.w) {
			p.refine(t.args[0], kbits{(kb.mask << c) & mask(t.w), (kb.val << c) & mask(t.w)})
		}
	case OpShl:
		if c, ok := t.args[1].Const(); ok && c < uint64(t.w) {
			p.refine(t.args[0], kbits{kb.mask >> c, kb.val >> c})
		}
	case OpExtract:
		lo := uint(t.val & 0xff)
		p.refine(t.args[0], kbits{kb.mask << lo, kb.val << lo})
	case OpZExt:
		iw := mask(t.args[0].w)
		p.refine(t.args[0], kbits{kb.mask & iw, kb.val & iw})
	case OpSExt:
		iw := mask(t.args[0].w)
		p.refine(t.args[0], kbits{kb.mask & iw, kb.val & iw})
	case OpConcat:
		lw := uint(t.args[1].w)
		p.refine(t.args[1], kbits{kb.mask & mask(int(lw)), kb.val & mask(int(lw))})
		p.refine(t.args[0], kbits{kb.mask >> lw, kb.val >> lw})
	}
}

// kbNote learns known bits from a new conjunct.
func (p *Path) kbNote(c *Term) {
	vi := termVars(c)
	if vi.single == nil || vi.single.w <= 8 {
		return
	}
	switch c.op {
	case OpEq:
		if k, ok := c.args[1].Const(); ok {
			p.refine(c.args[0], kbits{mask(c.args[0].w), k})
		}
	case OpBNot:
		// x&bit != 0  /  x&bit != bit for single-bit masks
		e := c.args[0]
		if e.op == OpEq {
			if k, ok := e.args[1].Const(); ok && e.args[0].op == OpAnd {
				if m, ok2 := e.args[0].args[1].Const(); ok2 && popcount(m) == 1 {
					p.refine(e.args[0].args[0], kbits{m, m &^ k})
				}
			}
		}
	}
}

// kbDecide decides a single-wide-variable condition with the known-bits domain.
func (p *Path) kbDecide(c *Term) (feasT, feasF, ok bool) {
	vi := termVars(c)
	if vi.single == nil || vi.single.w <= 8 {
		return false, false, false
	}
	r, sup := p.tern(c, map[*Term]kbits{})
	if !sup {
		return false, false, false
	}
	if r.mask&1 == 1 {
		if r.val&1 == 1 {
			return true, false, true
		}
		return false, true, true
	}
	return true, true, true
}
