package main

import (
	"hash/fnv"
	"math"
	"encoding/json"
	"flag"
	"fmt"
	"go/types"
	"os"
	"os/exec"
	"path/filepath"
	"runtime"
	"sort"
	"strconv"
	"strings"
	"sync"
	"time"

	"golang.org/x/tools/go/ssa"
)

// ---- check configuration (harness/<ID>/check.json) ----

type Unit struct {
	Name      string            `json:"name"`
	Pkg       string            `json:"pkg"`  // e.g. ./internal/patch
	Arch      string            `json:"arch"` // amd64 (default), arm64, 386
	Files     []string          `json:"files"`
	ExtraPkgs []string          `json:"extra_pkgs"` // additional patterns to load
	RefPkgs   map[string]string `json:"ref_pkgs"`   // virtual pkg dir (relative to repo) -> real dir to copy as overlay
	Harness   []HarnessSel      `json:"harness"`
	UserInit  []string          `json:"user_init"` // init#N functions / package paths allowed to run
	Gen       string            `json:"gen"`       // generator to run before loading (produces Files)
	Shards    int               `json:"shards"`
	Optional  bool              `json:"optional"`
	Approx    bool              `json:"approx"`     // over-approximate branch feasibility with the byte/known-bits domains
	XCheck    int               `json:"xcheck"`     // cross-validate this many sampled paths per harness natively
	XFiles    []string          `json:"xfiles"`     // harness files for the native run (default: files)
	XFlags    []string          `json:"xflags"`     // go test flags for the native run
	XInstr    []string          `json:"xinstrument"` // files whose atomics are scheduling points
	ExtraFiles map[string][]string `json:"extra_files"` // other package dir -> harness files injected there
	VirtFiles map[string]string `json:"virt_files"` // virtual file (relative to repo) -> repo file it is a copy of
}

type HarnessSel struct {
	Name       string `json:"name"`   // exact name or prefix*
	Tier       string `json:"tier"`   // "quick" (both tiers) or "thorough"
	Bounds     string `json:"bounds"` // human-readable bound statement
	TimeoutS   int    `json:"timeout_s"`
	NoMerge    bool   `json:"no_merge"`
	QuickEvery int    `json:"quick_every"` // for prefix matches: in quick tier take every n-th (seeded)
}

type ReplaySpec struct {
	Match    string   `json:"match"` // assertion id prefix
	Template string   `json:"template"`
	Pkg      string   `json:"pkg"`
	Flags    []string `json:"flags"`
	Files    []string `json:"files"` // extra overlay files (harness helpers) needed by the replay
	Arch     string   `json:"arch"`
	Mode     string   `json:"mode"` // "native": run the harness natively with the model; else template
	RefPkgs  map[string]string `json:"ref_pkgs"` // virtual package dirs (as in units) needed by the replay
	Instrument []string `json:"instrument"` // repo files whose sync/atomic calls become scheduling points in the replay
}

type CheckConfig struct {
	Property    string       `json:"property"`
	Level       string       `json:"level"`
	Explanation string       `json:"explanation"`
	Units       []Unit       `json:"units"`
	Replays     []ReplaySpec `json:"replays"`
	Assumptions []string     `json:"assumptions"`
	TrustedBase []string     `json:"trusted_base"`
	Rule        string       `json:"rule"`
}

type KnownFinding struct {
	Property string `json:"property"`
	ID       string `json:"id"`
	Status   string `json:"status"` // known | fixed
	Class    string `json:"class"`
	Commit   string `json:"commit,omitempty"`
	What     string `json:"what"`
}

// ---- worker job/result ----

type Job struct {
	Check    string   `json:"check"`
	UnitIdx  int      `json:"unit"`
	Harness  []string `json:"harness"`
	Tier     string   `json:"tier"`
	Repo     string   `json:"repo"`
	Out      string   `json:"out"`
	Deadline int      `json:"deadline_s"`
}

type JobResult struct {
	Unit       string            `json:"unit"`
	Stats      []*HarnessStats   `json:"stats"`
	Violations []*Violation      `json:"violations"`
	Fns        map[string]int    `json:"fns"`
	Stubs      map[string]int    `json:"stubs"`
	InitNotes  []string          `json:"init_notes"`
	Error      string            `json:"error,omitempty"`
	Missing    []string          `json:"missing,omitempty"`
	LoadS      float64           `json:"load_s"`
	Queries    map[string]string `json:"queries"`
	Distinct   int               `json:"distinct_queries"`
	SolverErrs int               `json:"solver_errors"`
	Samples    []*XSample        `json:"samples"`
	UnitIdx    int               `json:"unit_idx"`
}

var verifRoot = "/verif"

func main() {
	if len(os.Args) < 2 {
		fmt.Fprintln(os.Stderr, "usage: symgo check <ID> [--tier quick|thorough] | worker <job.json> | replay <path>")
		os.Exit(2)
	}
	if r := os.Getenv("VERIF_ROOT"); r != "" {
		verifRoot = r
	}
	switch os.Args[1] {
	case "check":
		os.Exit(cmdCheck(os.Args[2:]))
	case "worker":
		os.Exit(cmdWorker(os.Args[2]))
	case "replay":
		os.Exit(cmdReplay(os.Args[2:]))
	case "list":
		os.Exit(cmdList(os.Args[2:]))
	case "selfcheck":
		os.Exit(cmdSelfcheck())
	default:
		fmt.Fprintln(os.Stderr, "unknown command", os.Args[1])
		os.Exit(2)
	}
}

func readCheck(id string) (*CheckConfig, error) {
	b, err := os.ReadFile(filepath.Join(verifRoot, "harness", id, "check.json"))
	if err != nil {
		return nil, err
	}
	var c CheckConfig
	if err := json.Unmarshal(b, &c); err != nil {
		return nil, fmt.Errorf("check.json: %v", err)
	}
	return &c, nil
}

func readKnown() []KnownFinding {
	b, err := os.ReadFile(filepath.Join(verifRoot, "known_findings.json"))
	if err != nil {
		return nil
	}
	var k []KnownFinding
	if err := json.Unmarshal(b, &k); err != nil {
		fmt.Fprintln(os.Stderr, "known_findings.json:", err)
	}
	return k
}

func workDir(id string) string {
	d := filepath.Join(verifRoot, ".work", id)
	os.MkdirAll(d, 0o755)
	return d
}

// buildOverlay maps harness files of a unit into the package directory of repo.
func buildOverlay(id string, u *Unit, repo string) (map[string]string, error) {
	ov := map[string]string{}
	pkgDir := filepath.Join(repo, u.Pkg)
	var pkgName string
	var err error
	for virt, real := range u.VirtFiles {
		ov[filepath.Join(repo, virt)] = filepath.Join(repo, real)
		if pkgName == "" {
			pkgName, err = packageNameOfFile(filepath.Join(repo, real))
		}
	}
	if pkgName == "" {
		pkgName, err = packageName(pkgDir)
	}
	if err != nil {
		return nil, err
	}
	wd := workDir(id)
	// intrinsics file
	tmpl, err := os.ReadFile(filepath.Join(verifRoot, "harness", "common", "intrinsics.go.tmpl"))
	if err != nil {
		return nil, err
	}
	intr := filepath.Join(wd, fmt.Sprintf("intr_%s_%s_%d.go", u.Name, pkgName, os.Getpid()))
	os.WriteFile(intr, []byte(strings.ReplaceAll(string(tmpl), "PACKAGE", pkgName)), 0o644)
	ov[filepath.Join(pkgDir, "zz_verif_intrinsics.go")] = intr
	for _, f := range u.Files {
		real := filepath.Join(verifRoot, "harness", id, f)
		if _, err := os.Stat(real); err != nil {
			real = filepath.Join(wd, f) // generated
		}
		ov[filepath.Join(pkgDir, "zz_verif_"+filepath.Base(f))] = substPkg(real, pkgName, wd)
	}
	for dir, files := range u.ExtraFiles {
		xdir := filepath.Join(repo, dir)
		xname, err := packageName(xdir)
		if err != nil {
			return nil, err
		}
		xintr := filepath.Join(wd, fmt.Sprintf("intr_%s_%s_%d.go", u.Name, xname, os.Getpid()))
		os.WriteFile(xintr, []byte(strings.ReplaceAll(string(tmpl), "PACKAGE", xname)), 0o644)
		ov[filepath.Join(xdir, "zz_verif_intrinsics.go")] = xintr
		for _, f := range files {
			real := filepath.Join(verifRoot, "harness", id, f)
			ov[filepath.Join(xdir, "zz_verif_"+filepath.Base(f))] = substPkg(real, xname, wd)
		}
	}
	for virt, realDir := range u.RefPkgs {
		rd := realDir
		if strings.HasPrefix(rd, "$GOROOT") {
			rd = strings.Replace(rd, "$GOROOT", goroot(), 1)
		}
		if strings.HasPrefix(rd, "$VERIF") {
			rd = strings.Replace(rd, "$VERIF", verifRoot, 1)
		}
		ents, err := os.ReadDir(rd)
		if err != nil {
			return nil, err
		}
		for _, e := range ents {
			n := e.Name()
			if !strings.HasSuffix(n, ".go") || strings.HasSuffix(n, "_test.go") {
				continue
			}
			ov[filepath.Join(repo, virt, n)] = filepath.Join(rd, n)
		}
	}
	return ov, nil
}

func packageNameOfFile(f string) (string, error) {
	b, err := os.ReadFile(f)
	if err != nil {
		return "", err
	}
	for _, l := range strings.Split(string(b), "\n") {
		l = strings.TrimSpace(l)
		if strings.HasPrefix(l, "package ") {
			return strings.Fields(l)[1], nil
		}
	}
	return "", fmt.Errorf("no package clause in %s", f)
}

func packageName(dir string) (string, error) {
	ents, err := os.ReadDir(dir)
	if err != nil {
		return "", err
	}
	for _, e := range ents {
		n := e.Name()
		if strings.HasSuffix(n, ".go") && !strings.HasSuffix(n, "_test.go") {
			b, err := os.ReadFile(filepath.Join(dir, n))
			if err != nil {
				continue
			}
			for _, l := range strings.Split(string(b), "\n") {
				l = strings.TrimSpace(l)
				if strings.HasPrefix(l, "package ") {
					return strings.Fields(l)[1], nil
				}
			}
		}
	}
	return "", fmt.Errorf("no package clause in %s", dir)
}

// ---- worker ----

func cmdWorker(jobFile string) int {
	b, err := os.ReadFile(jobFile)
	if err != nil {
		fmt.Fprintln(os.Stderr, err)
		return 3
	}
	var job Job
	json.Unmarshal(b, &job)
	res := runJob(&job)
	out, _ := json.MarshalIndent(res, "", " ")
	os.WriteFile(job.Out, out, 0o644)
	if res.Error != "" {
		return 3
	}
	return 0
}

func runJob(job *Job) *JobResult {
	res := &JobResult{Fns: map[string]int{}, Stubs: map[string]int{}, Queries: map[string]string{}}
	cfg, err := readCheck(job.Check)
	if err != nil {
		res.Error = err.Error()
		return res
	}
	u := &cfg.Units[job.UnitIdx]
	res.Unit = u.Name
	res.UnitIdx = job.UnitIdx
	arch := u.Arch
	if arch == "" {
		arch = "amd64"
	}
	if arch == "386" {
		wordBits = 32
	}
	ov, err := buildOverlay(job.Check, u, job.Repo)
	if err != nil {
		res.Error = "overlay: " + err.Error()
		return res
	}
	t0 := time.Now()
	pats := append([]string{u.Pkg}, u.ExtraPkgs...)
	ld, err := Load(LoadConfig{Repo: job.Repo, Arch: arch, Patterns: pats, Overlay: ov})
	res.LoadS = time.Since(t0).Seconds()
	if err != nil {
		res.Error = "load: " + err.Error()
		return res
	}
	in := NewInterp(ld.Prog, arch)
	for name, fn := range ld.Stubs {
		in.reroute[name] = fn
	}
	solverName := os.Getenv("SYMGO_SOLVER")
	if solverName == "" {
		solverName = "z3"
	}
	tmo := 60000
	if job.Tier == "thorough" {
		tmo = 240000
	}
	if s := os.Getenv("SYMGO_SOLVER_TIMEOUT_MS"); s != "" {
		tmo, _ = strconv.Atoi(s)
	}
	logp := ""
	if os.Getenv("SYMGO_SMTLOG") != "" {
		logp = job.Out + ".smt2"
	}
	sv, err := NewSolver(solverName, tmo, logp)
	if err != nil {
		res.Error = "solver: " + err.Error()
		return res
	}
	defer sv.Close()
	in.solver = sv
	allow := map[string]bool{}
	for _, a := range u.UserInit {
		allow[a] = true
	}
	res.InitNotes = in.runInits(ld, allow)
	in.fnsSeen = map[string]int{}
	in.stubsSeen = map[string]int{}
	in.xWanted = u.XCheck
	in.approxDomain = u.Approx
	deadline := time.Now().Add(time.Duration(job.Deadline) * time.Second)
	for _, hn := range job.Harness {
		fn, ok := ld.Harness[hn]
		if !ok {
			res.Missing = append(res.Missing, hn)
			continue
		}
		in.noMerge = ld.Opts[hn]["merge"] == "off"
		in.maxDecisions = 100000
		if v := ld.Opts[hn]["maxdecisions"]; v != "" {
			in.maxDecisions, _ = strconv.Atoi(v)
		}
		hd := deadline
		if v := ld.Opts[hn]["timeout_s"]; v != "" {
			n, _ := strconv.Atoi(v)
			if d := time.Now().Add(time.Duration(n) * time.Second); d.Before(hd) {
				hd = d
			}
		}
		in.xWanted = u.XCheck
		if ld.Opts[hn]["xcheck"] == "off" {
			in.xWanted = 0
		}
		in.violations = nil
		in.seenViol = map[string]bool{}
		in.assertIDs = map[string]bool{}
		in.RunHarness(fn, hd)
		in.stats.Bounds = ld.Opts[hn]["bounds"]
		res.Stats = append(res.Stats, in.stats)
		res.Violations = append(res.Violations, in.violations...)
	}
	res.Fns = in.fnsSeen
	res.Stubs = in.stubsSeen
	res.Queries = in.queryDump
	res.Distinct = len(in.queryHashes) + len(in.pathHashes)
	res.SolverErrs = sv.Errors
	res.Samples = in.xsamples
	return res
}

// ---- check driver ----

func cmdList(args []string) int {
	cfg, err := readCheck(args[0])
	if err != nil {
		fmt.Fprintln(os.Stderr, err)
		return 3
	}
	for _, u := range cfg.Units {
		fmt.Println(u.Name, u.Pkg, u.Files)
	}
	return 0
}

func cmdCheck(args []string) int {
	fs := flag.NewFlagSet("check", flag.ExitOnError)
	tier := fs.String("tier", "", "quick|thorough")
	repo := fs.String("repo", "/repo", "repository")
	only := fs.String("only", "", "only harnesses with this substring")
	jobs := fs.Int("j", 0, "parallel workers")
	noReplay := fs.Bool("no-replay", false, "skip replays")
	keep := fs.Bool("keep", false, "keep work dir")
	id := args[0]
	fs.Parse(args[1:])
	if *tier == "" {
		*tier = os.Getenv("VERIF_TIER")
	}
	if *tier == "" {
		*tier = "quick"
	}
	seed := int64(0)
	if s := os.Getenv("VERIF_SEED"); s != "" {
		seed, _ = strconv.ParseInt(s, 10, 64)
	}
	if *jobs == 0 {
		*jobs = runtime.NumCPU()
	}
	t0 := time.Now()
	cfg, err := readCheck(id)
	if err != nil {
		fmt.Fprintln(os.Stderr, err)
		return 3
	}
	wd := workDir(id)
	// clear previous job files
	if ents, err := os.ReadDir(wd); err == nil {
		for _, e := range ents {
			if strings.HasPrefix(e.Name(), "job") || strings.HasPrefix(e.Name(), "intr_") || strings.HasPrefix(e.Name(), "subst_") {
				os.Remove(filepath.Join(wd, e.Name()))
			}
		}
	}
	self, _ := os.Executable()
	deadlineS := 900
	if *tier == "thorough" {
		deadlineS = 3600
	}
	if s := os.Getenv("SYMGO_DEADLINE_S"); s != "" {
		deadlineS, _ = strconv.Atoi(s)
	}
	var jobList []*Job
	var genErrs []string
	for ui := range cfg.Units {
		u := &cfg.Units[ui]
		if u.Gen != "" {
			if err := runGenerator(id, u, *repo, *tier, seed); err != nil {
				genErrs = append(genErrs, fmt.Sprintf("%s: %v", u.Name, err))
				continue
			}
		}
		names, err := harnessNames(id, u, *tier, seed, *only)
		if err != nil {
			genErrs = append(genErrs, err.Error())
			continue
		}
		if len(names) == 0 {
			continue
		}
		shards := u.Shards
		if shards <= 0 {
			shards = 1
		}
		if *tier == "thorough" {
			// more jobs than cores: the job queue then balances uneven partitions
			shards *= 4
		}
		if shards > len(names) {
			shards = len(names)
		}
		for s := 0; s < shards; s++ {
			var hs []string
			for i := s; i < len(names); i += shards {
				hs = append(hs, names[i])
			}
			j := &Job{Check: id, UnitIdx: ui, Harness: hs, Tier: *tier, Repo: *repo, Deadline: deadlineS}
			j.Out = filepath.Join(wd, fmt.Sprintf("job_%d_%d.out.json", ui, s))
			jobList = append(jobList, j)
		}
	}
	// run jobs
	sem := make(chan struct{}, *jobs)
	var wg sync.WaitGroup
	results := make([]*JobResult, len(jobList))
	for i, j := range jobList {
		wg.Add(1)
		go func(i int, j *Job) {
			defer wg.Done()
			sem <- struct{}{}
			defer func() { <-sem }()
			jf := strings.TrimSuffix(j.Out, ".out.json") + ".json"
			b, _ := json.Marshal(j)
			os.WriteFile(jf, b, 0o644)
			cmd := exec.Command(self, "worker", jf)
			cmd.Env = append(os.Environ(), "VERIF_ROOT="+verifRoot)
			cmd.Stderr = os.Stderr
			cmd.Stdout = os.Stdout
			done := make(chan error, 1)
			cmd.Start()
			go func() { done <- cmd.Wait() }()
			select {
			case <-done:
			case <-time.After(time.Duration(j.Deadline+120) * time.Second):
				cmd.Process.Kill()
			}
			rb, err := os.ReadFile(j.Out)
			r := &JobResult{}
			if err != nil {
				r.Error = "worker produced no result (crash or timeout)"
				r.Unit = cfg.Units[j.UnitIdx].Name
			} else {
				json.Unmarshal(rb, r)
			}
			results[i] = r
		}(i, j)
	}
	wg.Wait()
	return finish(id, cfg, *tier, seed, results, genErrs, *repo, t0, *noReplay, *keep)
}

// harnessNames expands the unit's harness selectors by scanning harness files for VC_ functions.
func harnessNames(id string, u *Unit, tier string, seed int64, only string) ([]string, error) {
	var all []string
	for _, f := range u.Files {
		real := filepath.Join(verifRoot, "harness", id, f)
		if _, err := os.Stat(real); err != nil {
			real = filepath.Join(workDir(id), f)
		}
		b, err := os.ReadFile(real)
		if err != nil {
			return nil, err
		}
		for _, l := range strings.Split(string(b), "\n") {
			if strings.HasPrefix(l, "func VC_") {
				n := strings.TrimPrefix(l, "func ")
				if i := strings.Index(n, "("); i > 0 {
					all = append(all, n[:i])
				}
			}
		}
	}
	var out []string
	seen := map[string]bool{}
	for _, sel := range u.Harness {
		if sel.Tier == "thorough" && tier != "thorough" {
			continue
		}
		if sel.Tier == "quickonly" && tier != "quick" {
			continue
		}
		var matched []string
		for _, n := range all {
			if sel.Name == n || (strings.HasSuffix(sel.Name, "*") && strings.HasPrefix(n, strings.TrimSuffix(sel.Name, "*"))) {
				matched = append(matched, n)
			}
		}
		if sel.QuickEvery > 1 && tier == "quick" {
			var sub []string
			off := int(seed % int64(sel.QuickEvery))
			if off < 0 {
				off = -off
			}
			for i, n := range matched {
				if i%sel.QuickEvery == off {
					sub = append(sub, n)
				}
			}
			matched = sub
		}
		for _, n := range matched {
			if !seen[n] && (only == "" || strings.Contains(n, only)) {
				seen[n] = true
				out = append(out, n)
			}
		}
	}
	return out, nil
}

// ---- result aggregation, known findings, evidence ----

func finish(id string, cfg *CheckConfig, tier string, seed int64, results []*JobResult, genErrs []string, repo string, t0 time.Time, noReplay, keep bool) int {
	known := readKnown()
	var allStats []*HarnessStats
	var viols []*Violation
	fns := map[string]int{}
	stubs := map[string]int{}
	var problems []string
	problems = append(problems, genErrs...)
	var initNotes []string
	queries := map[string]string{}
	distinct := 0
	for _, r := range results {
		if r == nil {
			continue
		}
		if r.Error != "" {
			problems = append(problems, fmt.Sprintf("unit %s: %s", r.Unit, r.Error))
		}
		for _, m := range r.Missing {
			problems = append(problems, fmt.Sprintf("unit %s: harness %s missing", r.Unit, m))
		}
		if r.SolverErrs > 0 {
			problems = append(problems, fmt.Sprintf("unit %s: %d solver (error lines", r.Unit, r.SolverErrs))
		}
		allStats = append(allStats, r.Stats...)
		viols = append(viols, r.Violations...)
		for k, v := range r.Fns {
			fns[k] += v
		}
		for k, v := range r.Stubs {
			stubs[k] += v
		}
		for k, v := range r.Queries {
			if _, ok := queries[k]; !ok {
				queries[k] = v
			}
		}
		distinct += r.Distinct
		for _, n := range r.InitNotes {
			initNotes = appendUniq(initNotes, n)
		}
	}
	sort.Slice(allStats, func(i, j int) bool { return allStats[i].Name < allStats[j].Name })
	obligations, discharged, paths, evals := 0, 0, 0, 0
	states, transitions := 0, 0
	solverS := 0.0
	var samples []interface{}
	for _, s := range allStats {
		obligations += s.Asserts
		discharged += s.Trivial + s.Discharged
		paths += s.Paths
		evals += s.Queries
		states += s.States
		transitions += s.Transitions
		solverS += s.SolverS
		if s.Aborted > 0 {
			problems = append(problems, fmt.Sprintf("%s: %d aborted path(s): %s", s.Name, s.Aborted, strings.Join(s.AbortReasons, "; ")))
		}
		if s.Unknown > 0 {
			problems = append(problems, fmt.Sprintf("%s: %d solver unknown(s)", s.Name, s.Unknown))
		}
		if len(s.Reached) == 0 && s.Asserts == 0 {
			problems = append(problems, fmt.Sprintf("%s: vacuous (no assertion and no reach witness)", s.Name))
		}
		if len(samples) < 12 {
			samples = append(samples, map[string]interface{}{"harness": s.Name, "bounds": s.Bounds, "paths": s.Paths, "first_path": s.Sample, "assert_ids": s.AssertIDs, "reach_witnesses": s.Reached})
		}
	}
	// native cross-validation of sampled paths
	xOK, xFail := 0, 0
	if !noReplay {
		byUnit := map[int][]*XSample{}
		for _, r := range results {
			if r != nil {
				byUnit[r.UnitIdx] = append(byUnit[r.UnitIdx], r.Samples...)
			}
		}
		for ui, ss := range byUnit {
			if len(ss) == 0 {
				continue
			}
			ok, fail, msg := crossValidate(id, &cfg.Units[ui], ss, repo)
			xOK += ok
			xFail += fail
			if fail > 0 || msg != "" {
				problems = append(problems, fmt.Sprintf("ENCODING-MISMATCH: native cross-validation of unit %s: %d sample(s) disagree %s", cfg.Units[ui].Name, fail, msg))
			}
		}
	}
	// cross-solver validation: sampled discharged obligations (PC and negated assertion,
	// unsat under z3 4.8) are re-decided one-shot by z3 5.1 and cvc5; a 'sat' from either is
	// a disagreement (PROBLEM), unknown/timeouts are counted
	xsN := 6
	if tier == "thorough" {
		xsN = 32
	}
	xsolve := map[string]int{"sampled": 0, "agree": 0, "unknown": 0, "disagree": 0}
	if !noReplay && os.Getenv("SYMGO_SOLVER") == "" {
		var keys []string
		for k := range queries {
			keys = append(keys, k)
		}
		sort.Strings(keys)
		step := 1
		if len(keys) > xsN {
			step = len(keys) / xsN
		}
		var pick []string
		for i := 0; i < len(keys) && len(pick) < xsN; i += step {
			pick = append(pick, keys[i])
		}
		type xr struct {
			key, solver string
			r           SatResult
		}
		ch := make(chan xr, 2*len(pick))
		sem := make(chan struct{}, 16)
		var wg sync.WaitGroup
		for _, k := range pick {
			for _, sv := range []string{"z3-new", "cvc5"} {
				wg.Add(1)
				go func(k, sv string) {
					defer wg.Done()
					sem <- struct{}{}
					defer func() { <-sem }()
					ch <- xr{k, sv, RunOneShot(sv, queries[k], 20000)}
				}(k, sv)
			}
		}
		wg.Wait()
		close(ch)
		for r := range ch {
			xsolve["sampled"]++
			switch r.r {
			case Unsat:
				xsolve["agree"]++
			case Sat:
				xsolve["disagree"]++
				problems = append(problems, fmt.Sprintf("SOLVER-DISAGREEMENT: %s says sat on the obligation %s that z3 discharged (.work/%s/queries/%s.smt2)", r.solver, r.key, id, sanitize(r.key)))
			default:
				xsolve["unknown"]++
			}
		}
	}
	// replay and classify violations
	exit := 0
	var lines []string
	nViol := 0
	replayed := 0
	knownCount := map[string]int{}
	for _, v := range viols {
		kf := matchKnown(known, id, v)
		if !noReplay {
			replayViolation(id, cfg, v, repo)
			if v.Status != "not-replayed" {
				replayed++
			}
		}
		vp := writeViolation(id, v)
		switch {
		case v.Status == "not-reproduced":
			problems = append(problems, fmt.Sprintf("ENCODING-MISMATCH: %s (%s) did not reproduce natively: %s", v.AssertID, v.Harness, vp))
		case kf != nil:
			knownCount[kf.ID]++
			if knownCount[kf.ID] == 1 {
				lines = append(lines, fmt.Sprintf("KNOWN-FINDING: property=%s %s %s (first seen at %s in %s)", id, kf.ID, kf.What, v.AssertID, v.Harness))
			}
		default:
			nViol++
			rp := v.Replay
			if rp == "" {
				rp = vp
			}
			lines = append(lines, fmt.Sprintf("VIOLATION property=%s replay=%s", id, rp))
			fmt.Printf("  violated: %s in %s at %s model=%v note=%s status=%s\n", v.AssertID, v.Harness, v.Site, v.Model, v.Note, v.Status)
			exit = 1
		}
	}
	sort.Strings(lines)
	lines = uniq(lines)
	for _, l := range lines {
		fmt.Println(l)
	}
	if len(problems) > 0 && exit == 0 {
		exit = 3
	}
	for _, p := range problems {
		fmt.Println("PROBLEM:", p)
	}
	// evidence
	level := cfg.Level
	if level == "" {
		level = "other"
	}
	var fnList, stubList []string
	for k := range fns {
		if strings.Contains(k, "tencent/goom") && !strings.Contains(k, "verif") && !strings.Contains(k, "VC_") {
			fnList = append(fnList, k)
		}
	}
	for k := range stubs {
		stubList = append(stubList, k)
	}
	sort.Strings(fnList)
	sort.Strings(stubList)
	cov := map[string]interface{}{
		"obligations":         obligations,
		"discharged":          discharged,
		"paths":               paths,
		"evaluations":         evals,
		"distinct_nontrivial": distinct,
		"rule": firstNonEmpty(cfg.Rule, "each evaluation is one SMT query (branch feasibility or PC∧¬assertion) produced by symbolic execution of the listed goom functions; distinct_nontrivial = number of distinct explored paths whose path condition mentions symbolic inputs or explicit choices (hash of conjuncts and decisions) plus the number of distinct (path condition, negated assertion) queries that were not decided by constant folding and went to the solver"),
		"samples":             samples,
		"functions_encoded":   fnList,
		"stubs_used":          stubList,
		"harnesses":           allStats,
		"solver":              map[string]interface{}{"name": firstNonEmpty(os.Getenv("SYMGO_SOLVER"), "z3"), "time_s": round3(solverS)},
		"explanation":         firstNonEmpty(cfg.Explanation, "bounded symbolic execution of the real Go SSA + SMT (z3); unsat of PC∧¬assertion on every path within the stated bounds"),
		"checker_cmd":         "z3 -in (one live process per worker; scripts of one query per assertion id under .work/" + id + "/queries/)",
		"trusted_base":        append([]string{"golang.org/x/tools/go/ssa v0.29.0", "symgo SSA→SMT translation (/verif/engine)", "z3 4.8.12"}, cfg.TrustedBase...),
		"problems":            problems,
		"init_notes":          initNotes,
		"replays_run":         replayed,
		"native_cross_validated_paths": xOK,
		"cross_solver":        xsolve,
		"violations_detail":   viols,
		"known_lines":         lines,
		"known_finding_occurrences": knownCount,
	}
	if level == "model_checking" {
		if states == 0 {
			states = paths
		}
		if transitions == 0 {
			transitions = evals
		}
		cov["states"] = states
		cov["transitions"] = transitions
		cov["traces_validated_against_impl"] = replayed + xOK
	}
	ev := map[string]interface{}{
		"property_id": id,
		"tier":        tier,
		"seed":        seed,
		"level":       level,
		"coverage":    cov,
		"assumptions": cfg.Assumptions,
		"wall_s":      round3(time.Since(t0).Seconds()),
		"violations":  nViol,
	}
	os.MkdirAll(filepath.Join(verifRoot, "evidence"), 0o755)
	b, _ := json.MarshalIndent(ev, "", " ")
	os.WriteFile(filepath.Join(verifRoot, "evidence", id+".json"), b, 0o644)
	// query scripts
	qd := filepath.Join(workDir(id), "queries")
	os.MkdirAll(qd, 0o755)
	for k, v := range queries {
		os.WriteFile(filepath.Join(qd, sanitize(k)+".smt2"), []byte(v), 0o644)
	}
	fmt.Printf("symgo %s tier=%s: harnesses=%d paths=%d assertions=%d discharged=%d queries=%d violations=%d known=%d problems=%d wall=%.1fs\n",
		id, tier, len(allStats), paths, obligations, discharged, evals, nViol, len(knownCount), len(problems), time.Since(t0).Seconds())
	return exit
}

func uniq(l []string) []string {
	var out []string
	for i, s := range l {
		if i == 0 || s != l[i-1] {
			out = append(out, s)
		}
	}
	return out
}

func round3(f float64) float64 { return float64(int64(f*1000)) / 1000 }

func firstNonEmpty(a ...string) string {
	for _, s := range a {
		if s != "" {
			return s
		}
	}
	return ""
}

func sanitize(s string) string {
	out := strings.Map(func(r rune) rune {
		if r >= 'a' && r <= 'z' || r >= 'A' && r <= 'Z' || r >= '0' && r <= '9' || r == '.' || r == '_' || r == '-' {
			return r
		}
		return '_'
	}, s)
	// file names derived from long symbol names (generic shapes) must stay below NAME_MAX
	if len(out) > 150 {
		h := fnv.New32a()
		h.Write([]byte(s))
		out = fmt.Sprintf("%s_%08x_%s", out[:90], h.Sum32(), out[len(out)-40:])
	}
	return out
}

func matchKnown(known []KnownFinding, prop string, v *Violation) *KnownFinding {
	for i := range known {
		k := &known[i]
		if k.Property != prop || k.Status != "known" {
			continue
		}
		if k.Class != "" && k.Class == v.Class {
			return k
		}
	}
	return nil
}

func writeViolation(id string, v *Violation) string {
	d := filepath.Join(verifRoot, "replays", id)
	os.MkdirAll(d, 0o755)
	p := filepath.Join(d, sanitize(v.AssertID+"_"+v.Class)+".json")
	b, _ := json.MarshalIndent(v, "", " ")
	os.WriteFile(p, b, 0o644)
	return p
}

var _ = types.Typ
var _ *ssa.Function

// cmdSelfcheck: the solvers answer, and agree, on a fixed set of small queries; the term
// simplifier agrees with the solver on random terms (translator validation, part 1).
func cmdSelfcheck() int {
	x, y := Var(64, "x"), Var(64, "y")
	img := ArrVar("image0")
	qs := []struct {
		t    *Term
		want SatResult
	}{
		{Ne(Add(x, y), Add(y, x)), Unsat},
		{Eq(Mul(x, BV(64, 3)), BV(64, 7)), Sat},
		{Ne(Select(Store(img, x, BV(8, 7)), x), BV(8, 7)), Unsat},
		{BAnd(Ult(x, BV(64, 4)), Ugt(x, BV(64, 9))), Unsat},
		{Ne(SExt(Extract(x, 31, 0), 64), x), Sat},
	}
	bad := 0
	// the int -> float64 circuit against the Go conversion on boundary and pseudo-random values
	vals := []uint64{0, 1, 2, 3, 1 << 52, 1<<53 - 1, 1 << 53, 1<<53 + 1, 1<<53 + 2, 1<<53 + 3, 1<<54 + 2, 1<<54 + 3, 1<<54 + 6,
		1<<63 - 1, 1 << 63, 1<<63 + 1, 1<<64 - 1, 1<<64 - 2, 1<<64 - 1024, 1<<64 - 1025, 0x7FFFFFFFFFFFFC00, 0x7FFFFFFFFFFFFDFF, 0x7FFFFFFFFFFFFE00}
	rs := uint64(0x9E3779B97F4A7C15)
	for i := 0; i < 20000; i++ {
		rs ^= rs << 13
		rs ^= rs >> 7
		rs ^= rs << 17
		vals = append(vals, rs>>(uint(i)%64))
	}
	for _, c := range vals {
		if got, _ := i2f64bits(BV(64, c), false).Const(); got != math.Float64bits(float64(c)) {
			fmt.Printf("selfcheck: float64(uint64(%#x)): circuit %#x, Go %#x\n", c, got, math.Float64bits(float64(c)))
			bad++
		}
		if got, _ := i2f64bits(BV(64, c), true).Const(); got != math.Float64bits(float64(int64(c))) {
			fmt.Printf("selfcheck: float64(int64(%#x)): circuit %#x, Go %#x\n", c, got, math.Float64bits(float64(int64(c))))
			bad++
		}
	}
	// and symbolically: two int64 below 2^53 in magnitude convert to equal floats only if equal
	{
		lim := BV(64, 1<<53)
		inRange := func(v *Term) *Term { return BAnd(Slt(v, lim), Sgt(v, Neg(lim))) }
		q := BAnd(BAnd(inRange(x), inRange(y)), BAnd(Eq(i2f64bits(x, true), i2f64bits(y, true)), Ne(x, y)))
		qs = append(qs, struct {
			t    *Term
			want SatResult
		}{q, Unsat})
		qs = append(qs, struct {
			t    *Term
			want SatResult
		}{BAnd(Eq(i2f64bits(x, true), i2f64bits(y, true)), Ne(x, y)), Sat})
	}
	for _, name := range []string{"z3", "z3-new", "cvc5"} {
		for i, q := range qs {
			r := RunOneShot(name, QueryText(nil, q.t), 20000)
			if r != q.want {
				fmt.Printf("selfcheck: solver %s query %d: got %v want %v\n", name, i, r, q.want)
				if name == "z3" {
					bad++
				}
			}
		}
	}
	if bad > 0 {
		return 3
	}
	fmt.Println("selfcheck ok")
	return 0
}

// substPkg: harness files shared between packages start with "package PKG"; a copy with
// the real package name is written to the work directory.
func substPkg(real, pkgName, wd string) string {
	b, err := os.ReadFile(real)
	if err != nil || !strings.HasPrefix(string(b), "package PKG\n") {
		return real
	}
	out := filepath.Join(wd, fmt.Sprintf("subst_%s_%d_%s", pkgName, os.Getpid(), filepath.Base(real)))
	os.WriteFile(out, []byte(strings.Replace(string(b), "package PKG\n", "package "+pkgName+"\n", 1)), 0o644)
	return out
}
