package main

// Numeric addresses of engine objects. Function values get a symbolic data address
// (where the funcval lives; its first word, in the process image, is the code pointer) and
// a symbolic code address. Constraints are added to the path condition when an address is
// first used on a path.

import (
	"fmt"

	"golang.org/x/tools/go/ssa"
)

type addrSpace struct {
	byFuncAddr map[*Term]*FuncV
	cellIDs    map[*Value]int
	arrIDs     map[*ArrObj]int
	nextCell   int
	fnIDs      map[*ssa.Function]int
}

func newAddrSpace() *addrSpace {
	return &addrSpace{byFuncAddr: map[*Term]*FuncV{}, cellIDs: map[*Value]int{}, arrIDs: map[*ArrObj]int{}, fnIDs: map[*ssa.Function]int{}}
}

const (
	heapLo = 0xc000000000
	heapHi = 0xc100000000
	textLo = 0x400000
	textHi = 0x40000000
)

func (in *Interp) funcAddr(f *FuncV) *Term {
	if f.addr == nil {
		f.addr = Var(64, fmt.Sprintf("fv%d.addr", f.id))
		in.addrs.byFuncAddr[f.addr] = f
	}
	in.initFuncAddr(f)
	return f.addr
}

// codeVar: one code address per function body (closures of one function share it; all
// reflect.MakeFunc values share makeFuncStub).
func (in *Interp) codeVar(f *FuncV) *Term {
	switch {
	case f.fn != nil:
		id, ok := in.addrs.fnIDs[f.fn]
		if !ok {
			id = len(in.addrs.fnIDs) + 1
			in.addrs.fnIDs[f.fn] = id
		}
		return Var(64, fmt.Sprintf("fn%d.code", id))
	case f.isMakeFunc:
		return Var(64, "makeFuncStub.code")
	}
	return Var(64, fmt.Sprintf("fv%d.code", f.id))
}

func (in *Interp) funcCode(f *FuncV) *Term {
	if f.code == nil {
		f.code = in.codeVar(f)
	}
	in.initFuncAddr(f)
	return f.code
}

func (in *Interp) initFuncAddr(f *FuncV) {
	p := in.path
	if p == nil {
		return
	}
	key := fmt.Sprintf("faddr%d", f.id)
	if _, ok := p.ghost[key]; ok {
		return
	}
	p.ghost[key] = true
	if f.addr == nil {
		f.addr = Var(64, fmt.Sprintf("fv%d.addr", f.id))
		in.addrs.byFuncAddr[f.addr] = f
	}
	if f.code == nil {
		f.code = in.codeVar(f)
	}
	p.addPC(Uge(f.addr, BV(64, heapLo)))
	p.addPC(Ult(f.addr, BV(64, heapHi)))
	p.addPC(Eq(And(f.addr, BV(64, 7)), BV(64, 0)))
	p.addPC(Uge(f.code, BV(64, textLo)))
	p.addPC(Ult(f.code, BV(64, textHi)))
	// the first word of the funcval is the code pointer (on the initial image; the heap
	// range is never written by goom's patching)
	var w *Term
	for i := 7; i >= 0; i-- {
		b := Select(ArrVar("image0"), Add(f.addr, BV(64, uint64(i))))
		if w == nil {
			w = b
		} else {
			w = Concat(w, b)
		}
	}
	p.addPC(Eq(w, f.code))
	// distinct from other func values used on this path
	if farFacts == nil {
		farFacts = map[[2]*Term]uint64{}
	}
	far := func(a, b *Term, n uint64) {
		farFacts[[2]*Term{a, b}] = n
		farFacts[[2]*Term{b, a}] = n
	}
	for _, o := range p.funcsWithAddr {
		if o != f {
			// distinct 8-aligned func values are at least 8 bytes apart
			p.addPC(Ne(o.addr, f.addr))
			far(o.addr, f.addr, 8)
			if o.code != f.code {
				p.addPC(Ne(o.code, f.code))
			}
			// heap and text ranges are far apart
			far(o.addr, f.code, 1<<28)
			far(f.addr, o.code, 1<<28)
		}
	}
	far(f.addr, f.code, 1<<28)
	p.funcsWithAddr = append(p.funcsWithAddr, f)
	p.witnesses = append(p.witnesses, witness{name: f.addr.name, t: f.addr}, witness{name: f.code.name, t: f.code})
}

// objAtAddr maps an address term back to a known object: func values, and heap cells /
// arrays whose address was taken (uintptr(unsafe.Pointer(&x)) and back).
func (in *Interp) objAtAddr(t *Term) Value {
	if f, ok := in.addrs.byFuncAddr[t]; ok {
		return f
	}
	if c, ok := t.Const(); ok && c >= 0xc200000000 {
		id := int((c - 0xc200000000) / 4096)
		off := int((c - 0xc200000000) % 4096)
		if off == 0 {
			for p, i := range in.addrs.cellIDs {
				if i == id {
					return p
				}
			}
		}
		for a, i := range in.addrs.arrIDs {
			if i == id && off < len(a.elems) {
				return ElemPtr{arr: a, idx: off}
			}
		}
	}
	return nil
}

// cellAddr: opaque distinct addresses for heap cells (only equality/ordering-free uses).
func (in *Interp) cellAddr(p *Value) *Term {
	id, ok := in.addrs.cellIDs[p]
	if !ok {
		in.addrs.nextCell++
		id = in.addrs.nextCell
		in.addrs.cellIDs[p] = id
	}
	return BV(64, uint64(0xc200000000+id*4096))
}

func (in *Interp) arrAddr(a *ArrObj) *Term {
	id, ok := in.addrs.arrIDs[a]
	if !ok {
		in.addrs.nextCell++
		id = in.addrs.nextCell
		in.addrs.arrIDs[a] = id
	}
	return BV(64, uint64(0xc200000000+id*4096))
}
