package main

// Replays: a solver model is turned into an ordinary Go test run against the real build of
// /repo (go test -overlay). The test prints VERIF-REPRODUCED when the violation shows up
// natively.

import (
	"encoding/json"
	"fmt"
	"os"
	"os/exec"
	"path/filepath"
	"regexp"
	"strings"
	"time"
)

var placeholder = regexp.MustCompile(`\{\{([^}]+)\}\}`)

func replayViolation(id string, cfg *CheckConfig, v *Violation, repo string) {
	var spec *ReplaySpec
	for i := range cfg.Replays {
		r := &cfg.Replays[i]
		if strings.HasPrefix(v.AssertID, r.Match) {
			spec = r
			break
		}
	}
	if spec == nil || spec.Mode == "none" {
		return
	}
	if v.Kind == "memsafety" {
		// undefined behaviour (type-confused access through unsafe): no sanitizer or test
		// confirms it; reported for triage by reading
		v.Note += " (not replayable: memory-safety violation, triage by reading the site)"
		return
	}
	if spec.Mode == "native" {
		replayNative(id, spec, v, repo)
		return
	}
	tb, err := os.ReadFile(filepath.Join(verifRoot, "harness", id, spec.Template))
	if err != nil {
		v.Note += " (replay template missing: " + err.Error() + ")"
		return
	}
	src := placeholder.ReplaceAllStringFunc(string(tb), func(m string) string {
		name := m[2 : len(m)-2]
		if name == "SCHEDULE" {
			parts := make([]string, len(v.Schedule))
			for i, s := range v.Schedule {
				parts[i] = fmt.Sprint(s)
			}
			return strings.Join(parts, ", ")
		}
		if val, ok := v.Model[name]; ok {
			return val
		}
		return "0"
	})
	d := filepath.Join(verifRoot, "replays", id)
	os.MkdirAll(d, 0o755)
	base := sanitize(v.AssertID + "_" + v.Class)
	testFile := filepath.Join(d, base+"_test.go")
	os.WriteFile(testFile, []byte(src), 0o644)
	pkgDir := filepath.Join(repo, spec.Pkg)
	ov := map[string]string{filepath.Join(pkgDir, "zz_verif_replay_test.go"): testFile}
	for _, f := range spec.Files {
		ov[filepath.Join(pkgDir, "zz_verif_"+filepath.Base(f))] = filepath.Join(verifRoot, "harness", id, f)
	}
	ovFile := filepath.Join(d, base+".overlay.json")
	ob, _ := json.Marshal(map[string]interface{}{"Replace": ov})
	os.WriteFile(ovFile, ob, 0o644)
	v.Replay = testFile
	out, ok := runReplay(repo, spec, ovFile)
	os.WriteFile(filepath.Join(d, base+".log"), []byte(out), 0o644)
	switch {
	case strings.Contains(out, "VERIF-REPRODUCED"):
		v.Status = "reproduced"
	case ok || strings.Contains(out, "VERIF-NOT-REPRODUCED"):
		v.Status = "not-reproduced"
	default:
		v.Status = "not-reproduced"
		v.Note += " (replay failed to run; see log)"
	}
}

func runReplay(repo string, spec *ReplaySpec, ovFile string) (string, bool) {
	args := []string{"test", "-vet=off", "-count=1", "-overlay", ovFile, "-run", "TestVerifReplay", "-v"}
	args = append(args, spec.Flags...)
	args = append(args, spec.Pkg)
	cmd := exec.Command("go", args...)
	cmd.Dir = repo
	arch := spec.Arch
	if arch == "" {
		arch = "amd64"
	}
	cmd.Env = append(os.Environ(), "GOFLAGS=-mod=mod", "GOPROXY=off", "GOSUMDB=off", "GOTOOLCHAIN=local", "GOARCH="+arch)
	done := make(chan struct{})
	var out []byte
	var err error
	go func() { out, err = cmd.CombinedOutput(); close(done) }()
	select {
	case <-done:
	case <-time.After(300 * time.Second):
		if cmd.Process != nil {
			cmd.Process.Kill()
		}
		<-done
		return string(out) + "\nTIMEOUT", false
	}
	return string(out), err == nil
}

func cmdReplay(args []string) int {
	if len(args) < 1 {
		fmt.Fprintln(os.Stderr, "usage: symgo replay <path to replay _test.go or violation json>")
		return 2
	}
	p := args[0]
	if strings.HasSuffix(p, ".json") {
		b, err := os.ReadFile(p)
		if err != nil {
			fmt.Fprintln(os.Stderr, err)
			return 2
		}
		var v Violation
		json.Unmarshal(b, &v)
		if v.Replay == "" {
			fmt.Println("no native replay for this violation; model:", v.Model, "schedule:", v.Schedule)
			return 0
		}
		p = v.Replay
	}
	ovFile := strings.TrimSuffix(p, "_test.go") + ".overlay.json"
	b, err := os.ReadFile(ovFile)
	if err != nil {
		fmt.Fprintln(os.Stderr, err)
		return 2
	}
	var ov struct{ Replace map[string]string }
	json.Unmarshal(b, &ov)
	pkg := ""
	for virt := range ov.Replace {
		if strings.HasSuffix(virt, "zz_verif_replay_test.go") {
			pkg = "./" + strings.TrimPrefix(filepath.Dir(virt), "/repo/")
			if filepath.Dir(virt) == "/repo" {
				pkg = "."
			}
		}
	}
	flags := []string{}
	if pkg == "." {
		flags = append(flags, "-gcflags=all=-l")
	}
	out, _ := runReplay("/repo", &ReplaySpec{Pkg: pkg, Flags: flags}, ovFile)
	fmt.Println(out)
	if strings.Contains(out, "VERIF-REPRODUCED") {
		return 1
	}
	return 0
}

func runGenerator(id string, u *Unit, repo, tier string, seed int64) error {
	g, ok := generators[u.Gen]
	if !ok {
		return fmt.Errorf("unknown generator %s", u.Gen)
	}
	return g(id, u, repo, tier, seed)
}

var generators = map[string]func(id string, u *Unit, repo, tier string, seed int64) error{}

// replayNative runs the harness itself natively with the model's values (replay-mode
// intrinsics), against the real build of the package.
func replayNative(id string, spec *ReplaySpec, v *Violation, repo string) {
	d := filepath.Join(verifRoot, "replays", id)
	os.MkdirAll(d, 0o755)
	base := sanitize(v.AssertID + "_" + v.Class)
	pkgDir := filepath.Join(repo, spec.Pkg)
	pkgName, err := packageName(pkgDir)
	if err != nil {
		return
	}
	var sb strings.Builder
	fmt.Fprintf(&sb, "package %s\n\nimport \"testing\"\n\n", pkgName)
	fmt.Fprintf(&sb, "// generated by symgo: native replay of %s for assertion %s\n", v.Harness, v.AssertID)
	sb.WriteString("func TestVerifReplay(t *testing.T) {\n")
	keys := make([]string, 0, len(v.Model))
	for k := range v.Model {
		keys = append(keys, k)
	}
	sortStrings(keys)
	for _, k := range keys {
		if strings.HasPrefix(k, "img:") {
			fmt.Fprintf(&sb, "\tverifImg[%s] = %s\n", strings.TrimPrefix(k, "img:"), v.Model[k])
		} else {
			fmt.Fprintf(&sb, "\tverifModel[%q] = %s\n", k, v.Model[k])
		}
	}
	isRace := v.Kind == "race"
	if isRace {
		sb.WriteString("\tverifFreeRun = true // threads run freely under go test -race\n")
	}
	if len(v.Schedule) > 0 && !isRace {
		parts := make([]string, len(v.Schedule))
		for i, s := range v.Schedule {
			parts[i] = fmt.Sprint(s)
		}
		fmt.Fprintf(&sb, "\tverifSchedule = []int{%s}\n\tverifUseSched = true\n", strings.Join(parts, ", "))
	}
	fmt.Fprintf(&sb, "\tverifReplayRun(%s, %q, %v)\n}\n", v.Harness, v.AssertID, v.Kind == "panic")
	testFile := filepath.Join(d, base+"_test.go")
	os.WriteFile(testFile, []byte(sb.String()), 0o644)
	tmpl, err := os.ReadFile(filepath.Join(verifRoot, "harness", "common", "replay_intrinsics.go.tmpl"))
	if err != nil {
		return
	}
	intr := filepath.Join(d, base+"_intrinsics.go")
	os.WriteFile(intr, []byte(strings.ReplaceAll(string(tmpl), "PACKAGE", pkgName)), 0o644)
	ov := map[string]string{
		filepath.Join(pkgDir, "zz_verif_replay_test.go"): testFile,
		filepath.Join(pkgDir, "zz_verif_intrinsics.go"):  intr,
	}
	for _, f := range spec.Files {
		real := filepath.Join(verifRoot, "harness", id, f)
		if _, err := os.Stat(real); err != nil {
			real = filepath.Join(workDir(id), f)
		}
		ov[filepath.Join(pkgDir, "zz_verif_"+filepath.Base(f))] = substPkg(real, pkgName, d)
	}
	addRefPkgs(ov, spec.RefPkgs, repo)
	// schedule replays: instrumented copies of the files whose atomics are scheduling points
	for _, rel := range spec.Instrument {
		if isRace {
			break
		}
		src, err := os.ReadFile(filepath.Join(repo, rel))
		if err != nil {
			continue
		}
		ins, err := InstrumentAtomics(src)
		if err != nil {
			v.Note += " (instrumentation failed: " + err.Error() + ")"
			continue
		}
		out := filepath.Join(d, base+"_instr_"+filepath.Base(rel))
		os.WriteFile(out, ins, 0o644)
		ov[filepath.Join(repo, rel)] = out
	}
	ovFile := filepath.Join(d, base+".overlay.json")
	ob, _ := json.Marshal(map[string]interface{}{"Replace": ov})
	os.WriteFile(ovFile, ob, 0o644)
	v.Replay = testFile
	rs := spec
	if isRace {
		c := *spec
		// the Go race detector reports a race only when it observes both accesses: repeat
		c.Flags = append(append([]string{}, spec.Flags...), "-race", "-count=40")
		rs = &c
	}
	if v.Kind == "deadlock" {
		// a deadlock natively is a test that never ends: give it a short deadline
		c := *rs
		c.Flags = append(append([]string{}, rs.Flags...), "-timeout=45s")
		rs = &c
	}
	out, _ := runReplay(repo, rs, ovFile)
	os.WriteFile(filepath.Join(d, base+".log"), []byte(out), 0o644)
	if v.Kind == "deadlock" && !strings.Contains(out, "VERIF-REPRODUCED") && !strings.Contains(out, "VERIF-NOT-REPRODUCED") {
		if strings.Contains(out, "all goroutines are asleep") || strings.Contains(out, "test timed out") || strings.HasSuffix(out, "TIMEOUT") {
			v.Status = "reproduced"
			v.Note += " (the native run never ends: deadline / runtime deadlock report)"
			return
		}
	}
	if isRace {
		// the happens-before analysis is confirmed by the Go race detector on the real build
		file := v.Site
		if i := strings.Index(file, ":"); i > 0 {
			file = filepath.Base(file[:i])
		}
		if strings.Contains(out, "WARNING: DATA RACE") && strings.Contains(out, file+":") {
			v.Status = "reproduced"
		} else {
			v.Status = "not-reproduced"
			v.Note += " (go test -race reported no race; see " + filepath.Join(d, base+".log") + ")"
		}
		return
	}
	if strings.Contains(out, "VERIF-REPRODUCED") {
		v.Status = "reproduced"
	} else {
		v.Status = "not-reproduced"
		if !strings.Contains(out, "VERIF-NOT-REPRODUCED") {
			v.Note += " (native replay did not run; see " + filepath.Join(d, base+".log") + ")"
		}
	}
}

func sortStrings(s []string) {
	for i := 1; i < len(s); i++ {
		for j := i; j > 0 && s[j] < s[j-1]; j-- {
			s[j], s[j-1] = s[j-1], s[j]
		}
	}
}

// crossValidate runs the unit's harnesses natively on sampled path models and compares
// assertion outcomes and witness values with what the symbolic execution derived.
func crossValidate(id string, u *Unit, samples []*XSample, repo string) (ok, fail int, msg string) {
	d := filepath.Join(verifRoot, "replays", id)
	os.MkdirAll(d, 0o755)
	pkgDir := filepath.Join(repo, u.Pkg)
	pkgName, err := packageName(pkgDir)
	if err != nil {
		return 0, 0, err.Error()
	}
	var sb strings.Builder
	fmt.Fprintf(&sb, "package %s\n\nimport \"testing\"\n\n// generated by symgo: native cross-validation of sampled symbolic paths\n", pkgName)
	sb.WriteString("func TestVerifXCheck(t *testing.T) {\n")
	for i, s := range samples {
		fmt.Fprintf(&sb, "\tverifXSample(%d, %q, %s, map[string]uint64{", i, s.Harness, s.Harness)
		keys := make([]string, 0, len(s.Model))
		for k := range s.Model {
			keys = append(keys, k)
		}
		sortStrings(keys)
		for _, k := range keys {
			if !strings.HasPrefix(k, "img:") {
				fmt.Fprintf(&sb, "%q: %s, ", k, s.Model[k])
			}
		}
		sb.WriteString("}, map[uintptr]byte{")
		for _, k := range keys {
			if strings.HasPrefix(k, "img:") {
				fmt.Fprintf(&sb, "%s: %s, ", strings.TrimPrefix(k, "img:"), s.Model[k])
			}
		}
		sb.WriteString("}, []int{")
		for _, x := range s.Schedule {
			fmt.Fprintf(&sb, "%d, ", x)
		}
		fmt.Fprintf(&sb, "}, %v, map[string]uint64{", len(s.Schedule) > 0)
		ek := make([]string, 0, len(s.Expect))
		for k := range s.Expect {
			ek = append(ek, k)
		}
		sortStrings(ek)
		for _, k := range ek {
			fmt.Fprintf(&sb, "%q: %s, ", k, s.Expect[k])
		}
		sb.WriteString("})\n")
	}
	sb.WriteString("\tverifXReport()\n}\n")
	base := "xcheck_" + sanitize(u.Name)
	testFile := filepath.Join(d, base+"_test.go")
	os.WriteFile(testFile, []byte(sb.String()), 0o644)
	tmpl, err := os.ReadFile(filepath.Join(verifRoot, "harness", "common", "replay_intrinsics.go.tmpl"))
	if err != nil {
		return 0, 0, err.Error()
	}
	intr := filepath.Join(d, base+"_intrinsics.go")
	os.WriteFile(intr, []byte(strings.ReplaceAll(string(tmpl), "PACKAGE", pkgName)), 0o644)
	ov := map[string]string{
		filepath.Join(pkgDir, "zz_verif_replay_test.go"): testFile,
		filepath.Join(pkgDir, "zz_verif_intrinsics.go"):  intr,
	}
	for virt, real := range u.VirtFiles {
		ov[filepath.Join(repo, virt)] = filepath.Join(repo, real)
	}
	xfiles := u.Files
	if len(u.XFiles) > 0 {
		xfiles = u.XFiles
	}
	for _, f := range xfiles {
		real := filepath.Join(verifRoot, "harness", id, f)
		if _, err := os.Stat(real); err != nil {
			real = filepath.Join(workDir(id), f)
		}
		ov[filepath.Join(pkgDir, "zz_verif_"+filepath.Base(f))] = substPkg(real, pkgName, d)
	}
	addRefPkgs(ov, u.RefPkgs, repo)
	for _, rel := range u.XInstr {
		src, err := os.ReadFile(filepath.Join(repo, rel))
		if err != nil {
			continue
		}
		ins, err := InstrumentAtomics(src)
		if err != nil {
			return 0, 0, "instrumentation failed: " + err.Error()
		}
		out := filepath.Join(d, base+"_instr_"+filepath.Base(rel))
		os.WriteFile(out, ins, 0o644)
		ov[filepath.Join(repo, rel)] = out
	}
	ovFile := filepath.Join(d, base+".overlay.json")
	ob, _ := json.Marshal(map[string]interface{}{"Replace": ov})
	os.WriteFile(ovFile, ob, 0o644)
	spec := &ReplaySpec{Pkg: u.Pkg, Flags: u.XFlags, Arch: u.Arch}
	args := []string{"test", "-vet=off", "-count=1", "-overlay", ovFile, "-run", "TestVerifXCheck", "-v"}
	args = append(args, spec.Flags...)
	args = append(args, spec.Pkg)
	cmd := exec.Command("go", args...)
	cmd.Dir = repo
	arch := u.Arch
	if arch == "" {
		arch = "amd64"
	}
	cmd.Env = append(os.Environ(), "GOFLAGS=-mod=mod", "GOPROXY=off", "GOSUMDB=off", "GOTOOLCHAIN=local", "GOARCH="+arch)
	outb, _ := cmd.CombinedOutput()
	out := string(outb)
	os.WriteFile(filepath.Join(d, base+".log"), outb, 0o644)
	for _, l := range strings.Split(out, "\n") {
		if strings.HasPrefix(l, "VERIF-XCHECK ") {
			fmt.Sscanf(l, "VERIF-XCHECK ok=%d fail=%d", &ok, &fail)
			return ok, fail, ""
		}
	}
	return 0, 0, "(native run produced no report; see " + filepath.Join(d, base+".log") + ")"
}

func addRefPkgs(ov map[string]string, refs map[string]string, repo string) {
	for virt, realDir := range refs {
		rd := realDir
		if strings.HasPrefix(rd, "$GOROOT") {
			rd = strings.Replace(rd, "$GOROOT", goroot(), 1)
		}
		if strings.HasPrefix(rd, "$VERIF") {
			rd = strings.Replace(rd, "$VERIF", verifRoot, 1)
		}
		ents, err := os.ReadDir(rd)
		if err != nil {
			continue
		}
		for _, e := range ents {
			n := e.Name()
			if strings.HasSuffix(n, ".go") && !strings.HasSuffix(n, "_test.go") {
				ov[filepath.Join(repo, virt, n)] = filepath.Join(rd, n)
			}
		}
	}
}

func goroot() string {
	out, err := exec.Command("go", "env", "GOROOT").Output()
	if err != nil {
		return "/usr/lib/go"
	}
	return strings.TrimSpace(string(out))
}
