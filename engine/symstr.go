package main

// Symbolic strings: a sequence of literal pieces and formatted symbolic integers, as
// produced by fmt.Sprintf / strconv.Itoa / string concatenation on symbolic values. Only
// the predicates goom applies to such strings are supported (==, HasPrefix, Contains);
// anything else aborts the path as unsupported.

import (
	"fmt"
	"strconv"
	"strings"
)

type strPart struct {
	lit    string
	t      *Term // nil for literal
	signed bool
	verb   byte // 'd' or 'x'
	plus   bool
	sharp  bool
}

func symSeq(parts []strPart) Value {
	// merge adjacent literals; all-literal => concrete string
	var out []strPart
	for _, p := range parts {
		if p.t != nil {
			if c, ok := p.t.Const(); ok {
				_ = c
				p = strPart{lit: formatConstPart(p)}
			}
		}
		if p.t == nil {
			if p.lit == "" {
				continue
			}
			if n := len(out); n > 0 && out[n-1].t == nil {
				out[n-1].lit += p.lit
				continue
			}
		}
		out = append(out, p)
	}
	if len(out) == 0 {
		return ""
	}
	if len(out) == 1 && out[0].t == nil {
		return out[0].lit
	}
	return &SymStr{tag: "seq", parts: out}
}

func formatConstPart(p strPart) string {
	var s string
	neg := false
	if p.signed {
		v, _ := p.t.SConst()
		neg = v < 0
		if neg {
			s = fmtUint(uint64(-v), p)
		} else {
			s = fmtUint(uint64(v), p)
		}
	} else {
		v, _ := p.t.Const()
		s = fmtUint(v, p)
	}
	if neg {
		return "-" + s
	}
	if p.plus {
		return "+" + s
	}
	return s
}

func fmtUint(v uint64, p strPart) string {
	if p.verb == 'x' {
		if p.sharp {
			return "0x" + strconv.FormatUint(v, 16)
		}
		return strconv.FormatUint(v, 16)
	}
	return strconv.FormatUint(v, 10)
}

func partsOf(v Value) []strPart {
	switch x := v.(type) {
	case string:
		return []strPart{{lit: x}}
	case *SymStr:
		if x.tag == "seq" {
			return x.parts
		}
	}
	return nil
}

func symConcat(a, b Value) Value {
	pa, pb := partsOf(a), partsOf(b)
	if pa == nil || pb == nil {
		return &SymStr{tag: "concat", args: []Value{a, b}}
	}
	return symSeq(append(append([]strPart{}, pa...), pb...))
}

func negCond(p strPart) *Term {
	if !p.signed {
		return FalseT
	}
	return Slt(p.t, BV(p.t.w, 0))
}

// parseIntPart: the condition under which the formatted part equals tok.
func parseIntPart(p strPart, tok string) *Term {
	if tok == "" {
		return FalseT
	}
	neg := false
	switch tok[0] {
	case '-':
		neg = true
		tok = tok[1:]
	case '+':
		if !p.plus {
			return FalseT
		}
		tok = tok[1:]
	default:
		if p.plus {
			return FalseT
		}
	}
	base := 10
	if p.verb == 'x' {
		base = 16
		if p.sharp {
			if !strings.HasPrefix(tok, "0x") {
				return FalseT
			}
			tok = tok[2:]
		}
	}
	if tok == "" || (len(tok) > 1 && tok[0] == '0') {
		return FalseT
	}
	v, err := strconv.ParseUint(tok, base, 64)
	if err != nil {
		return FalseT
	}
	if strings.ToLower(tok) != tok {
		return FalseT
	}
	if neg {
		if !p.signed || v == 0 {
			return FalseT
		}
		return Eq(p.t, BV(p.t.w, -v))
	}
	if p.signed {
		// value must be non-negative in the type
		if p.t.w < 64 && v >= 1<<uint(p.t.w-1) {
			return FalseT
		}
	} else if p.t.w < 64 && v >= 1<<uint(p.t.w) {
		return FalseT
	}
	return Eq(p.t, BV(p.t.w, v))
}

func isIntChar(c byte) bool {
	return c == '+' || c == '-' || c >= '0' && c <= '9' || c >= 'a' && c <= 'f' || c == 'x'
}

func (in *Interp) seqEq(fr *frame, s *SymStr, c string) *Term {
	parts := s.parts
	rest := c
	cond := TrueT
	for i, p := range parts {
		if p.t == nil {
			if !strings.HasPrefix(rest, p.lit) {
				return FalseT
			}
			rest = rest[len(p.lit):]
			continue
		}
		// token = run of int chars, ending where the following literal starts
		end := 0
		for end < len(rest) && isIntChar(rest[end]) {
			end++
		}
		if i+1 < len(parts) && parts[i+1].t == nil {
			nl := parts[i+1].lit
			// shrink token so that the next literal matches
			found := -1
			for e := end; e >= 1; e-- {
				if strings.HasPrefix(rest[e:], nl) {
					found = e
					break
				}
			}
			if found < 0 {
				return FalseT
			}
			// ambiguity only if the literal starts with an int char; take the longest
			end = found
		} else if i+1 < len(parts) {
			panic(pathAbort{"unsupported: == on string with adjacent formatted integers at " + fr.site()})
		}
		cond = BAnd(cond, parseIntPart(p, rest[:end]))
		if cond == FalseT {
			return FalseT
		}
		rest = rest[end:]
	}
	if rest != "" {
		return FalseT
	}
	return cond
}

func (in *Interp) seqHasPrefix(fr *frame, s *SymStr, pre string) *Term {
	rest := pre
	for _, p := range s.parts {
		if rest == "" {
			return TrueT
		}
		if p.t == nil {
			n := len(p.lit)
			if n > len(rest) {
				n = len(rest)
			}
			if p.lit[:n] != rest[:n] {
				return FalseT
			}
			rest = rest[n:]
			continue
		}
		switch {
		case rest == "-":
			return negCond(p)
		case rest == "+":
			if !p.plus {
				return FalseT
			}
			return BNot(negCond(p))
		case !isIntChar(rest[0]):
			return FalseT
		}
		panic(pathAbort{"unsupported: HasPrefix reaching into a formatted integer at " + fr.site()})
	}
	return Bool(rest == "")
}

func (in *Interp) seqContains(fr *frame, s *SymStr, c string) *Term {
	if c == "" {
		return TrueT
	}
	res := FalseT
	lit := "" // literal text since the previous integer part
	for _, p := range s.parts {
		if p.t == nil {
			lit += p.lit
			if strings.Contains(lit, c) {
				return TrueT
			}
			continue
		}
		// matches that end inside this integer part: c = u + v, u a suffix of lit, v a
		// prefix of the formatted integer
		for k := 1; k <= len(c); k++ {
			u, v := c[:len(c)-k], c[len(c)-k:]
			if !strings.HasSuffix(lit, u) {
				continue
			}
			switch {
			case v == "-":
				res = BOr(res, negCond(p))
			case v == "+":
				if p.plus {
					res = BOr(res, BNot(negCond(p)))
				}
			case !isIntChar(v[0]):
				// cannot start a formatted integer
			default:
				panic(pathAbort{"unsupported: Contains reaching into a formatted integer at " + fr.site()})
			}
		}
		// matches that start inside the integer part
		if isIntChar(c[0]) {
			panic(pathAbort{"unsupported: Contains pattern starting with an integer character at " + fr.site()})
		}
		lit = ""
	}
	return res
}

func (s *SymStr) describe() string {
	var sb strings.Builder
	for _, p := range s.parts {
		if p.t == nil {
			sb.WriteString(p.lit)
		} else {
			fmt.Fprintf(&sb, "<%%%c %s>", p.verb, p.t)
		}
	}
	return sb.String()
}

// mathEq: equality of the mathematical values of two formatted integers.
func mathEq(a, b strPart) *Term {
	x, y := a.t, b.t
	ext := func(p strPart) *Term {
		if p.signed {
			return SExt(p.t, 64)
		}
		return ZExt(p.t, 64)
	}
	if x.w == 64 && y.w == 64 && a.signed != b.signed {
		// mixed signedness at full width: equal iff same bits and the signed one is >= 0
		s := x
		if b.signed {
			s = y
		}
		return BAnd(Eq(x, y), BNot(Slt(s, BV(64, 0))))
	}
	if a.signed != b.signed {
		s := a
		if b.signed {
			s = b
		}
		return BAnd(Eq(ext(a), ext(b)), BNot(Slt(s.t, BV(s.t.w, 0))))
	}
	return Eq(ext(a), ext(b))
}

// seqEqSeq: equality of two symbolic strings with the same literal skeleton.
func (in *Interp) seqEqSeq(fr *frame, a, b *SymStr) *Term {
	if a.tag != "seq" || b.tag != "seq" || len(a.parts) != len(b.parts) {
		panic(pathAbort{"unsupported: == between differently shaped symbolic strings at " + fr.site()})
	}
	cond := TrueT
	for i := range a.parts {
		pa, pb := a.parts[i], b.parts[i]
		if (pa.t == nil) != (pb.t == nil) {
			panic(pathAbort{"unsupported: == between differently shaped symbolic strings at " + fr.site()})
		}
		if pa.t == nil {
			if pa.lit != pb.lit {
				// different literals around integers could still line up only in contrived
				// cases (digits in literals); treat as unsupported unless clearly distinct
				for _, c := range []byte(pa.lit + pb.lit) {
					if isIntChar(c) {
						panic(pathAbort{"unsupported: ambiguous symbolic string comparison at " + fr.site()})
					}
				}
				return FalseT
			}
			continue
		}
		if pa.verb != pb.verb || pa.plus != pb.plus || pa.sharp != pb.sharp {
			panic(pathAbort{"unsupported: == between differently formatted integers at " + fr.site()})
		}
		cond = BAnd(cond, mathEq(pa, pb))
	}
	return cond
}
