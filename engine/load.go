package main

// Front end: load /repo's packages with harness overlays, build SSA, run package
// initialisers (variable initialisers only; user init() functions with environment
// effects are skipped unless whitelisted), discover harness entry points and stub
// directives.

import (
	"fmt"
	"go/ast"
	"os"
	"path/filepath"
	"sort"
	"strings"

	"golang.org/x/tools/go/packages"
	"golang.org/x/tools/go/ssa"
	"golang.org/x/tools/go/ssa/ssautil"
)

type LoadConfig struct {
	Repo     string
	Arch     string
	Patterns []string          // package patterns relative to repo
	Overlay  map[string]string // virtual path -> real file
}

type Loaded struct {
	Prog    *ssa.Program
	Pkgs    []*packages.Package
	SSAPkgs []*ssa.Package
	// harness functions by name
	Harness map[string]*ssa.Function
	// stub directives: real function full name -> harness function
	Stubs map[string]*ssa.Function
	// per-harness options from directives
	Opts map[string]map[string]string
}

func Load(cfg LoadConfig) (*Loaded, error) {
	overlay := map[string][]byte{}
	for virt, real := range cfg.Overlay {
		b, err := os.ReadFile(real)
		if err != nil {
			return nil, err
		}
		overlay[virt] = b
	}
	env := append(os.Environ(), "GOFLAGS=-mod=mod", "GOPROXY=off", "GOSUMDB=off", "GOTOOLCHAIN=local", "GOARCH="+cfg.Arch, "GOOS=linux", "CGO_ENABLED=0")
	pc := &packages.Config{Mode: packages.LoadAllSyntax, Dir: cfg.Repo, Env: env, Overlay: overlay}
	pkgs, err := packages.Load(pc, cfg.Patterns...)
	if err != nil {
		return nil, err
	}
	var errs []string
	packages.Visit(pkgs, nil, func(p *packages.Package) {
		for _, e := range p.Errors {
			errs = append(errs, e.Error())
		}
	})
	if len(errs) > 0 {
		if len(errs) > 10 {
			errs = errs[:10]
		}
		return nil, fmt.Errorf("load errors:\n%s", strings.Join(errs, "\n"))
	}
	prog, spkgs := ssautil.AllPackages(pkgs, ssa.InstantiateGenerics)
	prog.Build()
	ld := &Loaded{Prog: prog, Pkgs: pkgs, SSAPkgs: spkgs, Harness: map[string]*ssa.Function{}, Stubs: map[string]*ssa.Function{}, Opts: map[string]map[string]string{}}
	// discover harness functions & directives
	var allPkgs []*packages.Package
	packages.Visit(pkgs, nil, func(p *packages.Package) { allPkgs = append(allPkgs, p) })
	for _, p := range allPkgs {
		if p.Types == nil {
			continue
		}
		sp := prog.Package(p.Types)
		if sp == nil {
			continue
		}
		for _, f := range p.Syntax {
			fname := p.Fset.Position(f.Pos()).Filename
			if !strings.Contains(filepath.Base(fname), "zz_verif") {
				continue
			}
			for _, d := range f.Decls {
				fd, ok := d.(*ast.FuncDecl)
				if !ok || fd.Recv != nil {
					continue
				}
				fn := sp.Func(fd.Name.Name)
				if fn == nil {
					continue
				}
				if strings.HasPrefix(fd.Name.Name, "VC_") {
					ld.Harness[fd.Name.Name] = fn
				}
				if fd.Doc != nil {
					for _, c := range fd.Doc.List {
						txt := strings.TrimSpace(strings.TrimPrefix(c.Text, "//"))
						if strings.HasPrefix(txt, "verif:stub ") {
							ld.Stubs[strings.TrimSpace(strings.TrimPrefix(txt, "verif:stub "))] = fn
						}
						if strings.HasPrefix(txt, "verif:opt ") {
							kv := strings.SplitN(strings.TrimSpace(strings.TrimPrefix(txt, "verif:opt ")), "=", 2)
							if len(kv) == 2 {
								if ld.Opts[fd.Name.Name] == nil {
									ld.Opts[fd.Name.Name] = map[string]string{}
								}
								ld.Opts[fd.Name.Name][kv[0]] = kv[1]
							}
						}
					}
				}
			}
		}
	}
	return ld, nil
}

// runInits executes package initialisers of goom packages (and reference decoders).
func (in *Interp) runInits(ld *Loaded, allowUserInit map[string]bool) []string {
	var notes []string
	done := map[*ssa.Package]bool{}
	var pkgs []*ssa.Package
	for _, p := range ld.Prog.AllPackages() {
		if in.pkgAllowed(p.Pkg.Path()) || strings.Contains(p.Pkg.Path(), "zzverifref") {
			pkgs = append(pkgs, p)
		}
	}
	sort.Slice(pkgs, func(i, j int) bool { return pkgs[i].Pkg.Path() < pkgs[j].Pkg.Path() })
	in.stats = &HarnessStats{Name: "init"}
	for _, p := range pkgs {
		if done[p] {
			continue
		}
		done[p] = true
		initFn := p.Func("init")
		if initFn == nil {
			continue
		}
		in.path = &Path{pcSet: map[*Term]bool{}, nondets: map[string]*Term{}, ghost: map[string]Value{}, image: ArrVar("image0")}
		in.initPkg = p
		in.allowUserInit = allowUserInit
		func() {
			defer func() {
				if r := recover(); r != nil {
					notes = append(notes, fmt.Sprintf("init of %s stopped: %v", p.Pkg.Path(), describePanic(r)))
				}
			}()
			in.runInitFn(initFn)
		}()
	}
	in.path = nil
	in.initPkg = nil
	return notes
}

func describePanic(r interface{}) string {
	switch x := r.(type) {
	case pathAbort:
		return x.reason
	case pathEnd:
		return x.reason
	case *goPanic:
		return x.String()
	}
	return fmt.Sprint(r)
}

// runInitFn interprets a package init function, skipping calls to other packages' init
// and to user init functions (init#N) unless whitelisted.
func (in *Interp) runInitFn(fn *ssa.Function) {
	in.initMode = true
	defer func() { in.initMode = false }()
	in.callSSA(nil, fn, nil, nil)
}

func (in *Interp) skipInInit(fn *ssa.Function) bool {
	if !in.initMode {
		return false
	}
	name := fn.Name()
	if name == "init" {
		return true // dependencies are initialised by the outer loop
	}
	if strings.HasPrefix(name, "init#") {
		full := fn.String()
		return !in.allowUserInit[full] && !in.allowUserInit[fn.Pkg.Pkg.Path()]
	}
	return false
}
