package main

// SMT-LIB2 printing and a live solver process (z3 -in / z3-new -in / cvc5 --incremental).
// Every compound term is sent once as a global (define-fun tN () sort body); assertions
// then refer to tN. The assertion stack is kept in sync with the path condition by
// popping to the common prefix and pushing the rest.

import (
	"bufio"
	"fmt"
	"io"
	"os"
	"os/exec"
	"strconv"
	"strings"
	"time"
)

type SatResult int

const (
	Unsat SatResult = iota
	Sat
	Unknown
)

func (r SatResult) String() string { return [...]string{"unsat", "sat", "unknown"}[r] }

type Solver struct {
	name    string
	cmd     *exec.Cmd
	in      io.WriteCloser
	out     *bufio.Reader
	defined map[int]bool
	stack   []*Term // asserted conjuncts, one push level each
	Queries int
	TimeS   float64
	Errors  int
	log     *os.File
	timeout int // ms
	dead    bool
}

func solverArgv(name string, timeoutMs int) []string {
	switch name {
	case "z3":
		return []string{"z3", "-in", "-t:" + strconv.Itoa(timeoutMs)}
	case "z3-new":
		return []string{"z3-new", "-in", "-t:" + strconv.Itoa(timeoutMs)}
	case "cvc5":
		return []string{"cvc5", "--incremental", "--lang=smt2", "--tlimit-per=" + strconv.Itoa(timeoutMs), "--produce-models"}
	}
	panic("unknown solver " + name)
}

func NewSolver(name string, timeoutMs int, logPath string) (*Solver, error) {
	argv := solverArgv(name, timeoutMs)
	cmd := exec.Command(argv[0], argv[1:]...)
	in, err := cmd.StdinPipe()
	if err != nil {
		return nil, err
	}
	outp, err := cmd.StdoutPipe()
	if err != nil {
		return nil, err
	}
	cmd.Stderr = cmd.Stdout
	if err := cmd.Start(); err != nil {
		return nil, err
	}
	s := &Solver{name: name, cmd: cmd, in: in, out: bufio.NewReaderSize(outp, 1<<16), defined: map[int]bool{}, timeout: timeoutMs}
	if logPath != "" {
		s.log, _ = os.Create(logPath)
	}
	s.send("(set-option :global-declarations true)\n(set-option :produce-models true)\n")
	if name == "cvc5" {
		s.send("(set-logic ALL)\n")
	}
	return s, nil
}

func (s *Solver) Close() {
	if s == nil || s.cmd == nil {
		return
	}
	s.in.Close()
	done := make(chan struct{})
	go func() { s.cmd.Wait(); close(done) }()
	select {
	case <-done:
	case <-time.After(2 * time.Second):
		s.cmd.Process.Kill()
	}
	if s.log != nil {
		s.log.Close()
	}
}

func (s *Solver) send(str string) {
	if s.log != nil {
		s.log.WriteString(str)
	}
	if _, err := io.WriteString(s.in, str); err != nil {
		s.dead = true
	}
}

func sortOf(t *Term) string {
	switch {
	case t.w == 0:
		return "Bool"
	case t.w == -1:
		return "(Array (_ BitVec 64) (_ BitVec 8))"
	}
	return "(_ BitVec " + strconv.Itoa(t.w) + ")"
}

func bvLit(w int, v uint64) string {
	if w%4 == 0 {
		return fmt.Sprintf("#x%0*x", w/4, v)
	}
	return fmt.Sprintf("#b%0*b", w, v)
}

func smtName(n string) string {
	var sb strings.Builder
	sb.WriteByte('|')
	for _, c := range n {
		if c == '|' || c == '\\' {
			c = '_'
		}
		sb.WriteRune(c)
	}
	sb.WriteByte('|')
	return sb.String()
}

// varName: the SMT name of a variable carries its width, so that harnesses may reuse a
// nondet name at different types within one solver process.
func varName(t *Term) string {
	if t.op == OpVar {
		return smtName(t.name + "#" + strconv.Itoa(t.w))
	}
	return smtName(t.name)
}

func ref(t *Term) string {
	switch t.op {
	case OpConst:
		return bvLit(t.w, t.val)
	case OpBConst:
		if t.val == 1 {
			return "true"
		}
		return "false"
	case OpVar, OpBVar, OpAVar:
		return varName(t)
	}
	return "t" + strconv.Itoa(t.id)
}

func body(t *Term) string {
	var sb strings.Builder
	sb.WriteByte('(')
	switch t.op {
	case OpExtract:
		fmt.Fprintf(&sb, "(_ extract %d %d)", t.val>>8, t.val&0xff)
	case OpZExt:
		fmt.Fprintf(&sb, "(_ zero_extend %d)", t.w-t.args[0].w)
	case OpSExt:
		fmt.Fprintf(&sb, "(_ sign_extend %d)", t.w-t.args[0].w)
	default:
		sb.WriteString(opNames[t.op])
	}
	for _, a := range t.args {
		sb.WriteByte(' ')
		sb.WriteString(ref(a))
	}
	sb.WriteByte(')')
	return sb.String()
}

// define sends declarations/definitions for t and everything below it.
func (s *Solver) define(t *Term) {
	if s.defined[t.id] {
		return
	}
	// iterative post-order
	type fr struct {
		t *Term
		i int
	}
	st := []fr{{t, 0}}
	var sb strings.Builder
	for len(st) > 0 {
		top := &st[len(st)-1]
		if s.defined[top.t.id] {
			st = st[:len(st)-1]
			continue
		}
		if top.i < len(top.t.args) {
			a := top.t.args[top.i]
			top.i++
			if !s.defined[a.id] {
				st = append(st, fr{a, 0})
			}
			continue
		}
		x := top.t
		st = st[:len(st)-1]
		s.defined[x.id] = true
		switch x.op {
		case OpConst, OpBConst:
		case OpVar, OpBVar, OpAVar:
			fmt.Fprintf(&sb, "(declare-const %s %s)\n", varName(x), sortOf(x))
		default:
			fmt.Fprintf(&sb, "(define-fun t%d () %s %s)\n", x.id, sortOf(x), body(x))
		}
	}
	if sb.Len() > 0 {
		s.send(sb.String())
	}
}

func (s *Solver) readLine() string {
	line, err := s.out.ReadString('\n')
	if err != nil {
		s.dead = true
		return "(error \"solver died\")"
	}
	return strings.TrimSpace(line)
}

// sync makes the solver's assertion stack equal to pc.
func (s *Solver) sync(pc []*Term) {
	n := 0
	for n < len(pc) && n < len(s.stack) && pc[n] == s.stack[n] {
		n++
	}
	if d := len(s.stack) - n; d > 0 {
		s.send(fmt.Sprintf("(pop %d)\n", d))
		s.stack = s.stack[:n]
	}
	for _, c := range pc[n:] {
		s.define(c)
		s.send("(push 1)\n(assert " + ref(c) + ")\n")
		s.stack = append(s.stack, c)
	}
}

func (s *Solver) checkSat() SatResult {
	s.send("(check-sat)\n")
	for {
		l := s.readLine()
		switch {
		case l == "sat":
			return Sat
		case l == "unsat":
			return Unsat
		case l == "unknown" || l == "timeout":
			return Unknown
		case strings.HasPrefix(l, "(error"):
			s.Errors++
			if s.dead {
				return Unknown
			}
			// keep reading: a verdict line still follows for check-sat, but it is not trusted
			fmt.Fprintf(os.Stderr, "solver %s: %s\n", s.name, l)
			// consume the verdict
			for {
				l2 := s.readLine()
				if l2 == "sat" || l2 == "unsat" || l2 == "unknown" || s.dead {
					break
				}
			}
			return Unknown
		case l == "":
		default:
			// unexpected output (warnings etc.)
			if s.dead {
				return Unknown
			}
		}
	}
}

// Check decides pc ∧ extra. If wantModel and the result is sat, values of the given
// terms are returned (bv as uint64; bools 0/1).
func (s *Solver) Check(pc []*Term, extra *Term, modelOf []*Term) (SatResult, []uint64) {
	if s.dead {
		return Unknown, nil
	}
	t0 := time.Now()
	s.sync(pc)
	s.Queries++
	pushed := false
	if extra != nil && extra != TrueT {
		s.define(extra)
		s.send("(push 1)\n(assert " + ref(extra) + ")\n")
		pushed = true
	}
	r := s.checkSat()
	var vals []uint64
	if r == Sat && len(modelOf) > 0 {
		vals = s.getValues(modelOf)
	}
	if pushed {
		s.send("(pop 1)\n")
	}
	s.TimeS += time.Since(t0).Seconds()
	return r, vals
}

func (s *Solver) getValues(ts []*Term) []uint64 {
	vals := make([]uint64, len(ts))
	for i, t := range ts {
		if c, ok := t.Const(); ok {
			vals[i] = c
			continue
		}
		s.define(t)
		s.send("(get-value (" + ref(t) + "))\n")
		// answer: ((name value)) possibly on several lines
		txt := ""
		depth := 0
		started := false
		for {
			l := s.readLine()
			if strings.HasPrefix(l, "(error") {
				s.Errors++
				break
			}
			txt += l + " "
			for _, c := range l {
				if c == '(' {
					depth++
					started = true
				} else if c == ')' {
					depth--
				}
			}
			if started && depth <= 0 || s.dead {
				break
			}
		}
		vals[i] = parseValue(txt)
	}
	return vals
}

func parseValue(txt string) uint64 {
	// find last #x.. / #b.. / true / false / (_ bvN w)
	if i := strings.LastIndex(txt, "#x"); i >= 0 {
		j := i + 2
		for j < len(txt) && isHex(txt[j]) {
			j++
		}
		v, _ := strconv.ParseUint(txt[i+2:j], 16, 64)
		return v
	}
	if i := strings.LastIndex(txt, "#b"); i >= 0 {
		j := i + 2
		for j < len(txt) && (txt[j] == '0' || txt[j] == '1') {
			j++
		}
		v, _ := strconv.ParseUint(txt[i+2:j], 2, 64)
		return v
	}
	if i := strings.LastIndex(txt, "(_ bv"); i >= 0 {
		j := i + 5
		k := j
		for k < len(txt) && txt[k] >= '0' && txt[k] <= '9' {
			k++
		}
		v, _ := strconv.ParseUint(txt[j:k], 10, 64)
		return v
	}
	t := strings.TrimSpace(txt)
	if strings.HasSuffix(t, "true))") || strings.HasSuffix(t, "true) )") || strings.Contains(t, " true)") {
		return 1
	}
	return 0
}

func isHex(c byte) bool {
	return c >= '0' && c <= '9' || c >= 'a' && c <= 'f' || c >= 'A' && c <= 'F'
}

// QueryText renders a self-contained SMT-LIB2 script for pc ∧ extra (used for
// cross-solver comparison and for the evidence's checker_cmd).
func QueryText(pc []*Term, extra *Term) string {
	tmp := &Solver{defined: map[int]bool{}}
	var sb strings.Builder
	pr, pw := io.Pipe()
	tmp.in = pw
	done := make(chan struct{})
	go func() { io.Copy(&sb, pr); close(done) }()
	for _, c := range pc {
		tmp.define(c)
		tmp.send("(assert " + ref(c) + ")\n")
	}
	if extra != nil {
		tmp.define(extra)
		tmp.send("(assert " + ref(extra) + ")\n")
	}
	tmp.send("(check-sat)\n")
	pw.Close()
	<-done
	return sb.String()
}

// RunOneShot runs a solver binary on a script and returns its verdict.
func RunOneShot(solver string, script string, timeoutMs int) SatResult {
	argv := solverArgv(solver, timeoutMs)
	cmd := exec.Command(argv[0], argv[1:]...)
	pre := ""
	if solver == "cvc5" {
		pre = "(set-logic ALL)\n"
	}
	cmd.Stdin = strings.NewReader(pre + script)
	out, _ := cmd.CombinedOutput()
	o := string(out)
	if strings.Contains(o, "(error") {
		return Unknown
	}
	for _, l := range strings.Split(o, "\n") {
		l = strings.TrimSpace(l)
		if l == "sat" {
			return Sat
		}
		if l == "unsat" {
			return Unsat
		}
	}
	return Unknown
}
