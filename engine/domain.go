package main

// Cheap per-byte value-set domain: a branch condition that depends on a single
// bit-vector variable of at most 8 bits is decided by enumerating its 256 values against
// the set of values the path condition still allows for that variable (tracked from
// single-variable conjuncts). The domain over-approximates feasibility (conjuncts that
// mention several variables are ignored), which is sound for exploration: assertions are
// always decided by the solver on the full path condition.

type bitset [4]uint64

func (b *bitset) has(i int) bool { return b[i>>6]&(1<<uint(i&63)) != 0 }
func (b *bitset) set(i int)      { b[i>>6] |= 1 << uint(i&63) }
func (b *bitset) empty() bool    { return b[0]|b[1]|b[2]|b[3] == 0 }
func (b *bitset) and(o *bitset) bitset {
	return bitset{b[0] & o[0], b[1] & o[1], b[2] & o[2], b[3] & o[3]}
}
func (b *bitset) andNot(o *bitset) bitset {
	return bitset{b[0] &^ o[0], b[1] &^ o[1], b[2] &^ o[2], b[3] &^ o[3]}
}

type varInfo struct {
	single *Term // the only variable below the term (nil if none or several)
	many   bool
}

var varCache = map[*Term]varInfo{}
var truthCache = map[*Term]*bitset{}

func termVars(t *Term) varInfo {
	if vi, ok := varCache[t]; ok {
		return vi
	}
	var vi varInfo
	switch t.op {
	case OpConst, OpBConst:
	case OpVar:
		vi.single = t
	case OpBVar, OpAVar:
		vi.many = true
	default:
		for _, a := range t.args {
			ai := termVars(a)
			if ai.many {
				vi.many = true
				break
			}
			if ai.single != nil {
				if vi.single == nil {
					vi.single = ai.single
				} else if vi.single != ai.single {
					vi.many = true
					break
				}
			}
		}
	}
	if vi.many {
		vi.single = nil
	}
	varCache[t] = vi
	return vi
}

// evalWith evaluates t with variable v := x (t must depend on v only and contain no arrays).
func evalWith(t *Term, x uint64, memo map[*Term]uint64) uint64 {
	if t.op == OpConst || t.op == OpBConst {
		return t.val
	}
	if t.op == OpVar {
		return x & mask(t.w)
	}
	if r, ok := memo[t]; ok {
		return r
	}
	a := func(i int) uint64 { return evalWith(t.args[i], x, memo) }
	b2u := func(b bool) uint64 {
		if b {
			return 1
		}
		return 0
	}
	var r uint64
	w := t.w
	switch t.op {
	case OpAdd:
		r = a(0) + a(1)
	case OpSub:
		r = a(0) - a(1)
	case OpMul:
		r = a(0) * a(1)
	case OpUDiv:
		if d := a(1); d == 0 {
			r = mask(w)
		} else {
			r = a(0) / d
		}
	case OpURem:
		if d := a(1); d == 0 {
			r = a(0)
		} else {
			r = a(0) % d
		}
	case OpSDiv, OpSRem:
		x0, y0 := sext64(a(0), t.args[0].w), sext64(a(1), t.args[1].w)
		if y0 == 0 {
			if t.op == OpSDiv {
				if x0 < 0 {
					r = 1
				} else {
					r = mask(w)
				}
			} else {
				r = uint64(x0)
			}
		} else if y0 == -1 {
			if t.op == OpSDiv {
				r = uint64(-x0)
			}
		} else if t.op == OpSDiv {
			r = uint64(x0 / y0)
		} else {
			r = uint64(x0 % y0)
		}
	case OpAnd:
		r = a(0) & a(1)
	case OpOr:
		r = a(0) | a(1)
	case OpXor:
		r = a(0) ^ a(1)
	case OpNot:
		r = ^a(0)
	case OpNeg:
		r = -a(0)
	case OpShl:
		if s := a(1); s >= uint64(w) {
			r = 0
		} else {
			r = a(0) << s
		}
	case OpLShr:
		if s := a(1); s >= uint64(w) {
			r = 0
		} else {
			r = a(0) >> s
		}
	case OpAShr:
		s := a(1)
		if s >= uint64(w) {
			s = uint64(w - 1)
		}
		r = uint64(sext64(a(0), w) >> s)
	case OpConcat:
		r = a(0)<<uint(t.args[1].w) | a(1)
	case OpExtract:
		r = a(0) >> uint(t.val&0xff)
	case OpZExt:
		r = a(0)
	case OpSExt:
		r = uint64(sext64(a(0), t.args[0].w))
	case OpIte, OpBIte:
		if a(0) == 1 {
			r = a(1)
		} else {
			r = a(2)
		}
	case OpEq, OpBEq:
		r = b2u(a(0) == a(1))
	case OpUlt:
		r = b2u(a(0) < a(1))
	case OpUle:
		r = b2u(a(0) <= a(1))
	case OpSlt:
		r = b2u(sext64(a(0), t.args[0].w) < sext64(a(1), t.args[1].w))
	case OpSle:
		r = b2u(sext64(a(0), t.args[0].w) <= sext64(a(1), t.args[1].w))
	case OpBNot:
		r = 1 - a(0)
	case OpBAnd:
		r = a(0) & a(1)
	case OpBOr:
		r = a(0) | a(1)
	default:
		panic("evalWith: op")
	}
	if w > 0 {
		r &= mask(w)
	}
	memo[t] = r
	return r
}

// truthSet: the values of the single 8-bit variable of c for which c holds (nil if c is
// not of that form).
func truthSet(c *Term) (*Term, *bitset) {
	vi := termVars(c)
	if vi.single == nil || vi.single.w > 8 {
		return nil, nil
	}
	if ts, ok := truthCache[c]; ok {
		return vi.single, ts
	}
	var ts bitset
	n := 1 << uint(vi.single.w)
	for x := 0; x < n; x++ {
		if evalWith(c, uint64(x), map[*Term]uint64{}) == 1 {
			ts.set(x)
		}
	}
	truthCache[c] = &ts
	return vi.single, &ts
}

func fullSet(w int) bitset {
	var b bitset
	for x := 0; x < 1<<uint(w); x++ {
		b.set(x)
	}
	return b
}

// domNote records a new conjunct in the path's per-byte domain.
func (p *Path) domNote(c *Term) {
	v, ts := truthSet(c)
	if v == nil {
		return
	}
	if p.dom == nil {
		p.dom = map[*Term]*bitset{}
	}
	cur, ok := p.dom[v]
	if !ok {
		f := fullSet(v.w)
		cur = &f
	}
	n := cur.and(ts)
	p.dom[v] = &n
}

// domDecide: feasibility of c and of not-c under the per-byte domain.
func (p *Path) domDecide(c *Term) (feasT, feasF, ok bool) {
	v, ts := truthSet(c)
	if v == nil {
		return false, false, false
	}
	var cur bitset
	if d, has := p.dom[v]; has {
		cur = *d
	} else {
		cur = fullSet(v.w)
	}
	t := cur.and(ts)
	f := cur.andNot(ts)
	return !t.empty(), !f.empty(), true
}

// possibleValues over-approximates the set of values of t (nil if more than limit).
func possibleValues(t *Term, limit int) []uint64 {
	seen := map[uint64]bool{}
	var out []uint64
	add := func(v uint64) bool {
		v &= mask(t.w)
		if !seen[v] {
			seen[v] = true
			out = append(out, v)
		}
		return len(out) <= limit
	}
	switch t.op {
	case OpConst:
		return []uint64{t.val}
	case OpAnd:
		if c, ok := t.args[1].Const(); ok && popcount(c) <= 6 {
			// all sub-masks of c, intersected with what the other side can be if known
			sub := uint64(0)
			for {
				if !add(sub) {
					return nil
				}
				if sub == c {
					break
				}
				sub = (sub - c) & c
			}
			return out
		}
	case OpOr, OpAdd, OpXor, OpSub:
		a := possibleValues(t.args[0], limit)
		b := possibleValues(t.args[1], limit)
		if a == nil || b == nil {
			return nil
		}
		for _, x := range a {
			for _, y := range b {
				var v uint64
				switch t.op {
				case OpOr:
					v = x | y
				case OpAdd:
					v = x + y
				case OpXor:
					v = x ^ y
				default:
					v = x - y
				}
				if !add(v) {
					return nil
				}
			}
		}
		return out
	case OpIte:
		a := possibleValues(t.args[1], limit)
		b := possibleValues(t.args[2], limit)
		if a == nil || b == nil {
			return nil
		}
		for _, x := range append(a, b...) {
			if !add(x) {
				return nil
			}
		}
		return out
	case OpZExt:
		return possibleValues(t.args[0], limit)
	case OpSExt:
		a := possibleValues(t.args[0], limit)
		for _, x := range a {
			add(uint64(sext64(x, t.args[0].w)))
		}
		if a == nil {
			return nil
		}
		return out
	case OpExtract:
		a := possibleValues(t.args[0], limit)
		if a == nil {
			return nil
		}
		for _, x := range a {
			if !add(x >> uint(t.val&0xff)) {
				return nil
			}
		}
		return out
	case OpLShr, OpShl:
		if c, ok := t.args[1].Const(); ok {
			a := possibleValues(t.args[0], limit)
			if a == nil {
				return nil
			}
			for _, x := range a {
				v := x >> c
				if t.op == OpShl {
					v = x << c
				}
				if !add(v) {
					return nil
				}
			}
			return out
		}
	}
	if vi := termVars(t); vi.single != nil && vi.single.w <= 8 && t.w > 0 {
		for x := 0; x < 1<<uint(vi.single.w); x++ {
			if !add(evalWith(t, uint64(x), map[*Term]uint64{})) {
				return nil
			}
		}
		return out
	}
	return nil
}
