package main

import (
	"fmt"
	"go/types"
	"sort"
	"strings"

	"golang.org/x/tools/go/ssa"
)

const (
	kInvalid = iota
	kBool
	kInt
	kInt8
	kInt16
	kInt32
	kInt64
	kUint
	kUint8
	kUint16
	kUint32
	kUint64
	kUintptr
	kFloat32
	kFloat64
	kComplex64
	kComplex128
	kArray
	kChan
	kFunc
	kInterface
	kMap
	kPtr
	kSlice
	kString
	kStruct
	kUnsafePointer
)

var kindNames = []string{"invalid", "bool", "int", "int8", "int16", "int32", "int64", "uint", "uint8", "uint16", "uint32",
	"uint64", "uintptr", "float32", "float64", "complex64", "complex128", "array", "chan", "func", "interface", "map", "ptr",
	"slice", "string", "struct", "unsafe.Pointer"}

func kindOf(t types.Type) int {
	if t == nil {
		return kInvalid
	}
	switch u := t.Underlying().(type) {
	case *types.Basic:
		switch u.Kind() {
		case types.Bool, types.UntypedBool:
			return kBool
		case types.Int, types.UntypedInt:
			return kInt
		case types.Int8:
			return kInt8
		case types.Int16:
			return kInt16
		case types.Int32, types.UntypedRune:
			return kInt32
		case types.Int64:
			return kInt64
		case types.Uint:
			return kUint
		case types.Uint8:
			return kUint8
		case types.Uint16:
			return kUint16
		case types.Uint32:
			return kUint32
		case types.Uint64:
			return kUint64
		case types.Uintptr:
			return kUintptr
		case types.Float32:
			return kFloat32
		case types.Float64, types.UntypedFloat:
			return kFloat64
		case types.Complex64:
			return kComplex64
		case types.Complex128:
			return kComplex128
		case types.String, types.UntypedString:
			return kString
		case types.UnsafePointer:
			return kUnsafePointer
		}
	case *types.Array:
		return kArray
	case *types.Chan:
		return kChan
	case *types.Signature:
		return kFunc
	case *types.Interface:
		return kInterface
	case *types.Map:
		return kMap
	case *types.Pointer:
		return kPtr
	case *types.Slice:
		return kSlice
	case *types.Struct:
		return kStruct
	}
	return kInvalid
}

func rpanic(fr *frame, msg string) {
	panic(&goPanic{val: msg, kind: "reflect", site: fr.site()})
}

func rv(v Value) *RValue {
	switch x := v.(type) {
	case *RValue:
		if x == nil {
			return &RValue{}
		}
		return x
	}
	panic(fmt.Sprintf("expected reflect.Value, got %T", v))
}

func rt(v Value) types.Type {
	switch x := v.(type) {
	case Iface:
		if x.t == nil {
			return nil
		}
		return x.v.(*RType).t
	case *RType:
		return x.t
	}
	panic(fmt.Sprintf("expected reflect.Type, got %T", v))
}

func (in *Interp) kindTerm(k int) *Term { return BV(wordBits, uint64(k)) }

// rvGet returns the current value held by rv (reading through the pointer when
// addressable).
func (in *Interp) rvGet(fr *frame, r *RValue) Value {
	if r.ptr != nil {
		return in.load(fr, r.ptr, r.t)
	}
	return r.v
}

func isIfaceType(t types.Type) bool {
	_, ok := t.Underlying().(*types.Interface)
	return ok
}

func (in *Interp) valueOf(i Value) *RValue {
	ifc, ok := i.(Iface)
	if !ok {
		panic(fmt.Sprintf("reflect.ValueOf of %T", i))
	}
	if ifc.t == nil {
		return &RValue{}
	}
	return &RValue{t: ifc.t, v: ifc.v}
}

// toIface boxes the value of r into an interface{}.
func (in *Interp) rvInterface(fr *frame, r *RValue) Value {
	if r.t == nil {
		rpanic(fr, "reflect: call of reflect.Value.Interface on zero Value")
	}
	v := in.rvGet(fr, r)
	if isIfaceType(r.t) {
		// an interface-kinded Value holds an interface; converting keeps dynamic type
		if ifc, ok := v.(Iface); ok {
			return ifc
		}
	}
	return Iface{t: r.t, v: copyVal(v)}
}

func (in *Interp) assignable(from, to types.Type) bool {
	if types.Identical(from, to) {
		return true
	}
	return types.AssignableTo(from, to)
}

// convertForAssign adapts value v of type from for storage in a slot of type to.
func (in *Interp) convertForAssign(v Value, from, to types.Type) Value {
	if isIfaceType(to) && !isIfaceType(from) {
		return Iface{t: from, v: v}
	}
	return v
}

func sortedMethods(t types.Type) []*types.Selection {
	ms := types.NewMethodSet(t)
	var out []*types.Selection
	for i := 0; i < ms.Len(); i++ {
		out = append(out, ms.At(i))
	}
	isI := isIfaceType(t)
	if !isI {
		// reflect lists exported methods only
		var ex []*types.Selection
		for _, s := range out {
			if s.Obj().Exported() {
				ex = append(ex, s)
			}
		}
		out = ex
	}
	sort.SliceStable(out, func(i, j int) bool {
		a, b := out[i].Obj(), out[j].Obj()
		if a.Exported() != b.Exported() {
			return a.Exported()
		}
		if a.Name() != b.Name() {
			return a.Name() < b.Name()
		}
		pa, pb := "", ""
		if a.Pkg() != nil {
			pa = a.Pkg().Path()
		}
		if b.Pkg() != nil {
			pb = b.Pkg().Path()
		}
		return pa < pb
	})
	return out
}

// methodFuncType: signature with the receiver as first parameter.
func methodFuncType(recv types.Type, sig *types.Signature) *types.Signature {
	var ps []*types.Var
	ps = append(ps, types.NewVar(0, nil, "", recv))
	for i := 0; i < sig.Params().Len(); i++ {
		ps = append(ps, sig.Params().At(i))
	}
	return types.NewSignatureType(nil, nil, nil, types.NewTuple(ps...), sig.Results(), sig.Variadic())
}

func stripRecv(sig *types.Signature) *types.Signature {
	return types.NewSignatureType(nil, nil, nil, sig.Params(), sig.Results(), sig.Variadic())
}

func (in *Interp) reflectMethodStruct(fr *frame, t types.Type, sel *types.Selection, idx int) Value {
	obj := sel.Obj().(*types.Func)
	sig := obj.Type().(*types.Signature)
	pkgPath := ""
	if !obj.Exported() && obj.Pkg() != nil {
		pkgPath = obj.Pkg().Path()
	}
	var mt types.Type
	var fn Value = &RValue{}
	if isIfaceType(t) {
		mt = stripRecv(sig)
	} else {
		ft := methodFuncType(t, sig)
		mt = ft
		mfn := in.prog.MethodValue(sel)
		if mfn != nil {
			f := in.funcValue(mfn)
			nf := *f
			nf.typ = ft
			// keep identity: one FuncV per (fn) for Pointer()
			fn = &RValue{t: ft, v: in.methodFuncV(mfn, ft)}
			_ = nf
		}
	}
	return &Struct{f: []Value{obj.Name(), pkgPath, in.rtype(mt), fn, BV(wordBits, uint64(idx))}}
}

func (in *Interp) methodFuncV(fn *ssa.Function, ft types.Type) *FuncV {
	f := in.funcValue(fn)
	if f.typ == nil || !types.Identical(f.typ, ft) {
		// method expressions share the code of the method; represent with the same FuncV
		// but remember the func type with receiver
		if in.methodExprs == nil {
			in.methodExprs = map[*ssa.Function]*FuncV{}
		}
		if m, ok := in.methodExprs[fn]; ok {
			return m
		}
		in.nextFuncID++
		m := &FuncV{fn: fn, typ: ft, id: in.nextFuncID, name: fn.String()}
		in.methodExprs[fn] = m
		return m
	}
	return f
}

func (in *Interp) rvSlice(vals []*RValue) Value {
	a := newArr(len(vals))
	for i, v := range vals {
		a.elems[i] = v
	}
	return Slice{arr: a, len: len(vals), cap: len(vals)}
}

func (in *Interp) rvArgs(fr *frame, s Value) []*RValue {
	sl := s.(Slice)
	out := make([]*RValue, sl.len)
	for i := 0; i < sl.len; i++ {
		out[i] = rv(in.sliceGet(fr, sl, i))
	}
	return out
}

// reflectCall implements Value.Call / CallSlice.
func (in *Interp) reflectCall(fr *frame, f *RValue, args []*RValue, isSlice bool) Value {
	if f.t == nil {
		rpanic(fr, "reflect: call of reflect.Value.Call on zero Value")
	}
	sig, ok := f.t.Underlying().(*types.Signature)
	if !ok {
		rpanic(fr, "reflect: call of reflect.Value.Call on "+kindNames[kindOf(f.t)]+" Value")
	}
	fv, _ := in.rvGet(fr, f).(*FuncV)
	if fv == nil {
		rpanic(fr, "reflect: call of nil function")
	}
	n := sig.Params().Len()
	var callArgs []Value
	if sig.Variadic() && !isSlice {
		if len(args) < n-1 {
			rpanic(fr, "reflect: Call with too few input arguments")
		}
		for i := 0; i < n-1; i++ {
			callArgs = append(callArgs, in.reflectArg(fr, args[i], sig.Params().At(i).Type()))
		}
		et := sig.Params().At(n - 1).Type().(*types.Slice).Elem()
		rest := args[n-1:]
		a := newArr(len(rest))
		for i, r := range rest {
			a.elems[i] = in.reflectArg(fr, r, et)
		}
		// reflect packs the variadic tail with MakeSlice: an empty tail is an empty
		// non-nil slice
		callArgs = append(callArgs, Slice{arr: a, len: len(rest), cap: len(rest)})
	} else {
		if isSlice && !sig.Variadic() {
			rpanic(fr, "reflect: CallSlice of non-variadic function")
		}
		if len(args) < n {
			rpanic(fr, "reflect: Call with too few input arguments")
		}
		if len(args) > n {
			rpanic(fr, "reflect: Call with too many input arguments")
		}
		for i := 0; i < n; i++ {
			callArgs = append(callArgs, in.reflectArg(fr, args[i], sig.Params().At(i).Type()))
		}
	}
	res := in.call(fr, fv, callArgs)
	nr := sig.Results().Len()
	out := make([]*RValue, nr)
	switch nr {
	case 0:
	case 1:
		out[0] = &RValue{t: sig.Results().At(0).Type(), v: res}
	default:
		tp := res.(Tuple)
		for i := range out {
			out[i] = &RValue{t: sig.Results().At(i).Type(), v: tp[i]}
		}
	}
	return in.rvSlice(out)
}

func (in *Interp) reflectArg(fr *frame, a *RValue, to types.Type) Value {
	if a.t == nil {
		rpanic(fr, "reflect: Call using zero Value argument")
	}
	if !in.assignable(a.t, to) {
		rpanic(fr, "reflect: Call using "+a.t.String()+" as type "+to.String())
	}
	return in.convertForAssign(copyVal(in.rvGet(fr, a)), a.t, to)
}

// callMakeFunc: a function created by reflect.MakeFunc is called with native args.
func (in *Interp) callMakeFunc(fr *frame, f *FuncV, args []Value) Value {
	sig := f.typ.Underlying().(*types.Signature)
	ins := make([]*RValue, len(args))
	for i, a := range args {
		ins[i] = &RValue{t: sig.Params().At(i).Type(), v: a}
	}
	if f.makeFuncImpl == nil {
		in.nilDeref(fr)
	}
	res := in.call(fr, f.makeFuncImpl, []Value{in.rvSlice(ins)})
	rs, _ := res.(Slice)
	nr := sig.Results().Len()
	if rs.len != nr {
		rpanic(fr, "reflect: wrong return count from function created by MakeFunc")
	}
	outs := make([]Value, nr)
	for i := 0; i < nr; i++ {
		r := rv(in.sliceGet(fr, rs, i))
		to := sig.Results().At(i).Type()
		if r.t == nil {
			rpanic(fr, "reflect: function created by MakeFunc using closure returned zero Value")
		}
		if !in.assignable(r.t, to) {
			rpanic(fr, "reflect: function created by MakeFunc using closure returned wrong type: have "+r.t.String()+" for "+to.String())
		}
		outs[i] = in.convertForAssign(copyVal(in.rvGet(fr, r)), r.t, to)
	}
	switch nr {
	case 0:
		return nil
	case 1:
		return outs[0]
	}
	return Tuple(outs)
}

func (in *Interp) rvLen(fr *frame, r *RValue) int {
	v := in.rvGet(fr, r)
	switch kindOf(r.t) {
	case kSlice:
		return v.(Slice).len
	case kArray:
		return len(v.(*ArrObj).elems)
	case kString:
		if s, ok := v.(string); ok {
			return len(s)
		}
		panic(pathAbort{"unsupported: reflect Len of symbolic string"})
	case kMap:
		return v.(*MapV).length()
	}
	rpanic(fr, "reflect: call of reflect.Value.Len on "+kindNames[kindOf(r.t)]+" Value")
	return 0
}

func (in *Interp) rvIsNil(fr *frame, r *RValue) *Term {
	v := in.rvGet(fr, r)
	switch kindOf(r.t) {
	case kChan, kFunc, kMap, kPtr, kUnsafePointer, kSlice, kInterface:
		if ip, ok := v.(ImgPtr); ok {
			return Eq(ip.addr, BV(64, 0))
		}
		return Bool(isNilValue(v))
	}
	rpanic(fr, "reflect: call of reflect.Value.IsNil on "+kindNames[kindOf(r.t)]+" Value")
	return nil
}

func addReflectStubs(m map[string]stubFn) {
	m["reflect.ValueOf"] = func(in *Interp, fr *frame, args []Value) Value { return in.valueOf(args[0]) }
	m["reflect.TypeOf"] = func(in *Interp, fr *frame, args []Value) Value {
		ifc := args[0].(Iface)
		if ifc.t == nil {
			return Iface{}
		}
		return in.rtype(ifc.t)
	}
	m["reflect.Zero"] = func(in *Interp, fr *frame, args []Value) Value {
		t := rt(args[0])
		if t == nil {
			rpanic(fr, "reflect: Zero(nil)")
		}
		return &RValue{t: t, v: zero(t)}
	}
	m["reflect.New"] = func(in *Interp, fr *frame, args []Value) Value {
		t := rt(args[0])
		if t == nil {
			rpanic(fr, "reflect: New(nil)")
		}
		cell := new(Value)
		*cell = zero(t)
		return &RValue{t: types.NewPointer(t), v: cell}
	}
	m["reflect.NewAt"] = func(in *Interp, fr *frame, args []Value) Value {
		t := rt(args[0])
		return &RValue{t: types.NewPointer(t), v: args[1], flag: 0}
	}
	m["reflect.SliceOf"] = func(in *Interp, fr *frame, args []Value) Value {
		return in.rtype(types.NewSlice(rt(args[0])))
	}
	m["reflect.PtrTo"] = func(in *Interp, fr *frame, args []Value) Value {
		return in.rtype(types.NewPointer(rt(args[0])))
	}
	m["reflect.PointerTo"] = m["reflect.PtrTo"]
	m["reflect.Indirect"] = func(in *Interp, fr *frame, args []Value) Value {
		r := rv(args[0])
		if kindOf(r.t) != kPtr {
			return r
		}
		return in.rvElem(fr, r)
	}
	m["reflect.MakeFunc"] = func(in *Interp, fr *frame, args []Value) Value {
		t := rt(args[0])
		if kindOf(t) != kFunc {
			rpanic(fr, "reflect: call of MakeFunc with non-Func type")
		}
		impl, _ := args[1].(*FuncV)
		in.nextFuncID++
		f := &FuncV{typ: t, makeFuncImpl: impl, id: in.nextFuncID, name: "reflect.makeFuncStub"}
		if impl == nil {
			f.native = func(in *Interp, fr *frame, args []Value) Value {
				in.nilDeref(fr)
				return nil
			}
			f.makeFuncImpl = nil
		}
		f.isMakeFunc = true
		return &RValue{t: t, v: f}
	}
	m["reflect.DeepEqual"] = func(in *Interp, fr *frame, args []Value) Value {
		return in.deepEqual(fr, args[0], args[1], 0)
	}
	// ---- Value methods ----
	V := "(reflect.Value)."
	m[V+"Kind"] = func(in *Interp, fr *frame, args []Value) Value {
		return in.kindTerm(kindOf(rv(args[0]).t))
	}
	m[V+"IsValid"] = func(in *Interp, fr *frame, args []Value) Value { return Bool(rv(args[0]).t != nil) }
	m[V+"Type"] = func(in *Interp, fr *frame, args []Value) Value {
		r := rv(args[0])
		if r.t == nil {
			rpanic(fr, "reflect: call of reflect.Value.Type on zero Value")
		}
		return in.rtype(r.t)
	}
	m[V+"Elem"] = func(in *Interp, fr *frame, args []Value) Value { return in.rvElem(fr, rv(args[0])) }
	m[V+"Interface"] = func(in *Interp, fr *frame, args []Value) Value { return in.rvInterface(fr, rv(args[0])) }
	m[V+"CanInterface"] = func(in *Interp, fr *frame, args []Value) Value {
		r := rv(args[0])
		if r.t == nil {
			rpanic(fr, "reflect: call of reflect.Value.CanInterface on zero Value")
		}
		return Bool(r.flag&rvRO == 0)
	}
	m[V+"CanSet"] = func(in *Interp, fr *frame, args []Value) Value {
		r := rv(args[0])
		return Bool(r.ptr != nil && r.flag&rvAddr != 0 && r.flag&rvRO == 0)
	}
	m[V+"CanAddr"] = func(in *Interp, fr *frame, args []Value) Value {
		r := rv(args[0])
		return Bool(r.ptr != nil && r.flag&rvAddr != 0)
	}
	m[V+"Addr"] = func(in *Interp, fr *frame, args []Value) Value {
		r := rv(args[0])
		if r.ptr == nil || r.flag&rvAddr == 0 {
			rpanic(fr, "reflect.Value.Addr of unaddressable value")
		}
		return &RValue{t: types.NewPointer(r.t), v: r.ptr}
	}
	m[V+"Set"] = func(in *Interp, fr *frame, args []Value) Value {
		r, x := rv(args[0]), rv(args[1])
		if r.t == nil {
			rpanic(fr, "reflect: call of reflect.Value.Set on zero Value")
		}
		if r.ptr == nil || r.flag&rvAddr == 0 {
			rpanic(fr, "reflect: reflect.Value.Set using unaddressable value")
		}
		if r.flag&rvRO != 0 {
			rpanic(fr, "reflect: reflect.Value.Set using value obtained using unexported field")
		}
		if x.t == nil {
			// x.mustBeExported() on zero Value
			rpanic(fr, "reflect: call of reflect.Value.Set on zero Value")
		}
		if !in.assignable(x.t, r.t) {
			rpanic(fr, "reflect.Set: value of type "+x.t.String()+" is not assignable to type "+r.t.String())
		}
		in.store(fr, r.ptr, in.convertForAssign(copyVal(in.rvGet(fr, x)), x.t, r.t), r.t)
		return nil
	}
	m[V+"IsNil"] = func(in *Interp, fr *frame, args []Value) Value { return in.rvIsNil(fr, rv(args[0])) }
	m[V+"IsZero"] = func(in *Interp, fr *frame, args []Value) Value {
		r := rv(args[0])
		if r.t == nil {
			rpanic(fr, "reflect: call of reflect.Value.IsZero on zero Value")
		}
		return in.equalZero(fr, in.rvGet(fr, r), r.t)
	}
	m[V+"Len"] = func(in *Interp, fr *frame, args []Value) Value {
		return BV(wordBits, uint64(in.rvLen(fr, rv(args[0]))))
	}
	m[V+"Bytes"] = func(in *Interp, fr *frame, args []Value) Value {
		r := rv(args[0])
		isByte := func(t types.Type) bool {
			b, ok := t.Underlying().(*types.Basic)
			return ok && b.Kind() == types.Uint8
		}
		switch u := r.t.Underlying().(type) {
		case *types.Slice:
			if !isByte(u.Elem()) {
				rpanic(fr, "reflect.Value.Bytes of non-byte slice")
			}
			return in.rvGet(fr, r)
		case *types.Array:
			if !isByte(u.Elem()) {
				rpanic(fr, "reflect.Value.Bytes of non-byte array")
			}
			if r.ptr == nil || r.flag&rvAddr == 0 {
				rpanic(fr, "reflect.Value.Bytes of unaddressable byte array")
			}
			a := in.rvGet(fr, r).(*ArrObj)
			return Slice{arr: a, len: len(a.elems), cap: len(a.elems)}
		}
		rpanic(fr, "reflect: call of reflect.Value.Bytes on "+kindNames[kindOf(r.t)]+" Value")
		return nil
	}
	m[V+"Index"] = func(in *Interp, fr *frame, args []Value) Value {
		r := rv(args[0])
		i := argInt(args[1])
		v := in.rvGet(fr, r)
		switch kindOf(r.t) {
		case kSlice:
			s := v.(Slice)
			if i < 0 || i >= s.len {
				rpanic(fr, "reflect: slice index out of range")
			}
			et := r.t.Underlying().(*types.Slice).Elem()
			return &RValue{t: et, ptr: in.sliceElemPtr(s, i, et), flag: rvAddr}
		case kArray:
			a := v.(*ArrObj)
			if i < 0 || i >= len(a.elems) {
				rpanic(fr, "reflect: array index out of range")
			}
			et := r.t.Underlying().(*types.Array).Elem()
			return &RValue{t: et, v: copyVal(a.elems[i])}
		case kString:
			s := v.(string)
			if i < 0 || i >= len(s) {
				rpanic(fr, "reflect: string index out of range")
			}
			return &RValue{t: types.Typ[types.Uint8], v: BV(8, uint64(s[i]))}
		}
		rpanic(fr, "reflect: call of reflect.Value.Index on "+kindNames[kindOf(r.t)]+" Value")
		return nil
	}
	m[V+"Int"] = func(in *Interp, fr *frame, args []Value) Value {
		r := rv(args[0])
		switch kindOf(r.t) {
		case kInt, kInt8, kInt16, kInt32, kInt64:
			return SExt(in.rvGet(fr, r).(*Term), 64)
		}
		rpanic(fr, "reflect: call of reflect.Value.Int on "+kindNames[kindOf(r.t)]+" Value")
		return nil
	}
	m[V+"Uint"] = func(in *Interp, fr *frame, args []Value) Value {
		r := rv(args[0])
		switch kindOf(r.t) {
		case kUint, kUint8, kUint16, kUint32, kUint64, kUintptr:
			return ZExt(in.rvGet(fr, r).(*Term), 64)
		}
		rpanic(fr, "reflect: call of reflect.Value.Uint on "+kindNames[kindOf(r.t)]+" Value")
		return nil
	}
	m[V+"Bool"] = func(in *Interp, fr *frame, args []Value) Value {
		r := rv(args[0])
		if kindOf(r.t) != kBool {
			rpanic(fr, "reflect: call of reflect.Value.Bool on "+kindNames[kindOf(r.t)]+" Value")
		}
		return in.rvGet(fr, r)
	}
	m[V+"Float"] = func(in *Interp, fr *frame, args []Value) Value {
		r := rv(args[0])
		switch kindOf(r.t) {
		case kFloat32, kFloat64:
			return in.rvGet(fr, r)
		}
		rpanic(fr, "reflect: call of reflect.Value.Float on "+kindNames[kindOf(r.t)]+" Value")
		return nil
	}
	m[V+"String"] = func(in *Interp, fr *frame, args []Value) Value {
		r := rv(args[0])
		if r.t == nil {
			return "<invalid Value>"
		}
		if kindOf(r.t) == kString {
			return in.rvGet(fr, r)
		}
		return "<" + (&RType{t: r.t}).String() + " Value>"
	}
	m[V+"Pointer"] = func(in *Interp, fr *frame, args []Value) Value {
		r := rv(args[0])
		v := in.rvGet(fr, r)
		switch kindOf(r.t) {
		case kFunc:
			f, _ := v.(*FuncV)
			if f == nil {
				return BV(64, 0)
			}
			return in.funcCode(f)
		case kPtr, kUnsafePointer, kChan, kMap:
			return in.addrOf(fr, v)
		case kSlice:
			s := v.(Slice)
			if s.img {
				return s.addr
			}
			if s.nilS {
				return BV(64, 0)
			}
			return Add(in.arrAddr(s.arr), BV(64, uint64(s.off)))
		}
		rpanic(fr, "reflect: call of reflect.Value.Pointer on "+kindNames[kindOf(r.t)]+" Value")
		return nil
	}
	m[V+"UnsafePointer"] = func(in *Interp, fr *frame, args []Value) Value {
		r := rv(args[0])
		return in.rvGet(fr, r)
	}
	m[V+"Call"] = func(in *Interp, fr *frame, args []Value) Value {
		return in.reflectCall(fr, rv(args[0]), in.rvArgs(fr, args[1]), false)
	}
	m[V+"CallSlice"] = func(in *Interp, fr *frame, args []Value) Value {
		return in.reflectCall(fr, rv(args[0]), in.rvArgs(fr, args[1]), true)
	}
	m[V+"NumField"] = func(in *Interp, fr *frame, args []Value) Value {
		r := rv(args[0])
		st, ok := r.t.Underlying().(*types.Struct)
		if !ok {
			rpanic(fr, "reflect: call of reflect.Value.NumField on "+kindNames[kindOf(r.t)]+" Value")
		}
		return BV(wordBits, uint64(st.NumFields()))
	}
	m[V+"Field"] = func(in *Interp, fr *frame, args []Value) Value {
		r := rv(args[0])
		st, ok := r.t.Underlying().(*types.Struct)
		if !ok {
			rpanic(fr, "reflect: call of reflect.Value.Field on "+kindNames[kindOf(r.t)]+" Value")
		}
		i := argInt(args[1])
		if i < 0 || i >= st.NumFields() {
			rpanic(fr, "reflect: Field index out of range")
		}
		return in.rvFieldOf(fr, r, st, i)
	}
	m[V+"FieldByName"] = func(in *Interp, fr *frame, args []Value) Value {
		r := rv(args[0])
		st, ok := r.t.Underlying().(*types.Struct)
		if !ok {
			rpanic(fr, "reflect: call of reflect.Value.FieldByName on "+kindNames[kindOf(r.t)]+" Value")
		}
		name := mustStr(fr, args[1], "FieldByName")
		if isReflectValueType(r.t) {
			// reflection on a reflect.Value itself (unexports2.CreateFuncForCodePtr reads the
			// "ptr" word to get at the function value behind a MakeFunc result)
			inner, ok := in.rvGet(fr, r).(*RValue)
			if ok && name == "ptr" {
				return &RValue{t: types.Typ[types.UnsafePointer], v: in.rvDataPtr(fr, inner), flag: rvRO}
			}
			panic(pathAbort{"unsupported: reflect.ValueOf(reflect.Value).FieldByName(" + name + ") at " + fr.site()})
		}
		for i := 0; i < st.NumFields(); i++ {
			if st.Field(i).Name() == name {
				return in.rvFieldOf(fr, r, st, i)
			}
		}
		return &RValue{}
	}
	m[V+"NumMethod"] = func(in *Interp, fr *frame, args []Value) Value {
		r := rv(args[0])
		return BV(wordBits, uint64(len(sortedMethods(r.t))))
	}
	m[V+"MethodByName"] = func(in *Interp, fr *frame, args []Value) Value {
		r := rv(args[0])
		if r.t == nil {
			rpanic(fr, "reflect: call of reflect.Value.MethodByName on zero Value")
		}
		name := mustStr(fr, args[1], "MethodByName")
		for _, sel := range sortedMethods(r.t) {
			if sel.Obj().Name() == name {
				return in.boundMethod(fr, r, sel)
			}
		}
		return &RValue{}
	}
	m[V+"Convert"] = func(in *Interp, fr *frame, args []Value) Value {
		r := rv(args[0])
		to := rt(args[1])
		if !types.ConvertibleTo(r.t, to) {
			rpanic(fr, "reflect.Value.Convert: value of type "+r.t.String()+" cannot be converted to type "+to.String())
		}
		v := in.rvGet(fr, r)
		if isIfaceType(to) && !isIfaceType(r.t) {
			return &RValue{t: to, v: Iface{t: r.t, v: v}}
		}
		if _, _, ok := intWidth(r.t); ok {
			if _, _, ok2 := intWidth(to); ok2 {
				return &RValue{t: to, v: in.convert(fr, r.t, to, v)}
			}
			if isFloat(to) {
				return &RValue{t: to, v: in.convert(fr, r.t, to, v)}
			}
		}
		if isFloat(r.t) && !isFloat(to) && !isIfaceType(to) {
			return &RValue{t: to, v: in.convert(fr, r.t, to, v)}
		}
		return &RValue{t: to, v: v}
	}
	m[V+"SetInt"] = func(in *Interp, fr *frame, args []Value) Value {
		r := rv(args[0])
		if r.ptr == nil {
			rpanic(fr, "reflect: reflect.Value.SetInt using unaddressable value")
		}
		w, _, _ := intWidth(r.t)
		in.store(fr, r.ptr, Resize(args[1].(*Term), w, true), r.t)
		return nil
	}
	m[V+"MapKeys"] = func(in *Interp, fr *frame, args []Value) Value {
		r := rv(args[0])
		mt, ok := r.t.Underlying().(*types.Map)
		if !ok {
			rpanic(fr, "reflect: call of reflect.Value.MapKeys on "+kindNames[kindOf(r.t)]+" Value")
		}
		mv, _ := in.rvGet(fr, r).(*MapV)
		var out []*RValue
		if mv != nil {
			for i := range mv.keys {
				if mv.live[i] {
					out = append(out, &RValue{t: mt.Key(), v: mv.keys[i]})
				}
			}
		}
		return in.rvSlice(out)
	}
	m[V+"MapIndex"] = func(in *Interp, fr *frame, args []Value) Value {
		r := rv(args[0])
		mt := r.t.Underlying().(*types.Map)
		mv, _ := in.rvGet(fr, r).(*MapV)
		k := rv(args[1])
		i := in.mapFind(fr, mv, in.rvGet(fr, k))
		if i < 0 {
			return &RValue{}
		}
		return &RValue{t: mt.Elem(), v: copyVal(mv.vals[i])}
	}
}

func (in *Interp) sliceElemPtr(s Slice, i int, et types.Type) Value {
	if s.img {
		return ImgPtr{addr: Add(s.addr, BV(64, uint64(i)))}
	}
	if isScalarElem(et) {
		return ElemPtr{arr: s.arr, idx: s.off + i}
	}
	return &s.arr.elems[s.off+i]
}

func (in *Interp) rvFieldOf(fr *frame, r *RValue, st *types.Struct, i int) *RValue {
	f := st.Field(i)
	flag := r.flag & rvRO
	if !f.Exported() && !f.Embedded() {
		flag |= rvRO
	}
	if r.ptr != nil {
		fp := in.fieldAddr(fr, r.ptr, i, types.NewPointer(r.t))
		return &RValue{t: f.Type(), ptr: fp, flag: flag | rvAddr}
	}
	sv := r.v.(*Struct)
	return &RValue{t: f.Type(), v: copyVal(sv.f[i]), flag: flag}
}

func (in *Interp) rvElem(fr *frame, r *RValue) *RValue {
	switch kindOf(r.t) {
	case kPtr:
		p := in.rvGet(fr, r)
		if isNilPtr(p) {
			return &RValue{}
		}
		et := r.t.Underlying().(*types.Pointer).Elem()
		return &RValue{t: et, ptr: p, flag: rvAddr | (r.flag & rvRO)}
	case kInterface:
		v := in.rvGet(fr, r)
		ifc, ok := v.(Iface)
		if !ok || ifc.t == nil {
			return &RValue{}
		}
		return &RValue{t: ifc.t, v: ifc.v, flag: r.flag & rvRO}
	}
	k := "invalid"
	if r.t != nil {
		k = kindNames[kindOf(r.t)]
	}
	rpanic(fr, "reflect: call of reflect.Value.Elem on "+k+" Value")
	return nil
}

func (in *Interp) boundMethod(fr *frame, r *RValue, sel *types.Selection) *RValue {
	sig := stripRecv(sel.Obj().Type().(*types.Signature))
	recv := copyVal(in.rvGet(fr, r))
	if isIfaceType(r.t) {
		ifc := recv.(Iface)
		if ifc.t == nil {
			rpanic(fr, "reflect: Method on nil interface value")
		}
		m := in.lookupMethod(ifc.t, sel.Obj().Pkg(), sel.Obj().Name())
		in.nextFuncID++
		f := &FuncV{typ: sig, id: in.nextFuncID, name: m.String() + "-fm", native: func(in *Interp, fr *frame, args []Value) Value {
			return in.callFn(fr, m, append([]Value{ifc.v}, args...), nil)
		}}
		return &RValue{t: sig, v: f}
	}
	mfn := in.prog.MethodValue(sel)
	if mfn == nil {
		rpanic(fr, "reflect: method "+sel.Obj().Name()+" has no implementation")
	}
	in.nextFuncID++
	f := &FuncV{typ: sig, id: in.nextFuncID, name: runtimeName(mfn) + "-fm", native: func(in *Interp, fr *frame, args []Value) Value {
		return in.callFn(fr, mfn, append([]Value{recv}, args...), nil)
	}}
	f.boundOf = mfn
	return &RValue{t: sig, v: f}
}

// equalZero: v == zero(t) as a term.
func (in *Interp) equalZero(fr *frame, v Value, t types.Type) *Term {
	switch x := v.(type) {
	case *Term:
		if x.w == 0 {
			return BNot(x)
		}
		return Eq(x, BV(x.w, 0))
	case string:
		return Bool(x == "")
	case FloatV:
		return Bool(x.v == 0)
	case *Struct:
		r := TrueT
		st := t.Underlying().(*types.Struct)
		for i := range x.f {
			r = BAnd(r, in.equalZero(fr, x.f[i], st.Field(i).Type()))
		}
		return r
	case *ArrObj:
		r := TrueT
		et := t.Underlying().(*types.Array).Elem()
		for i := range x.elems {
			r = BAnd(r, in.equalZero(fr, x.elems[i], et))
		}
		return r
	case ImgPtr:
		return Eq(x.addr, BV(64, 0))
	}
	return Bool(isNilValue(v))
}

// nativeMethod resolves interface method calls on engine-native receivers (reflect.Type).
func (in *Interp) nativeMethod(ifc Iface, m *types.Func) *FuncV {
	rtv, ok := ifc.v.(*RType)
	if !ok {
		return nil
	}
	name := m.Name()
	h, ok := rtypeMethods[name]
	if !ok {
		return &FuncV{name: "reflect.Type." + name, native: func(in *Interp, fr *frame, args []Value) Value {
			panic(pathAbort{"unsupported: reflect.Type." + name + " at " + fr.site()})
		}}
	}
	_ = rtv
	return &FuncV{name: "reflect.Type." + name, native: func(in *Interp, fr *frame, args []Value) Value {
		in.noteStub("reflect.Type." + name)
		return h(in, fr, args[0].(*RType).t, args[1:])
	}}
}

var rtypeMethods map[string]func(in *Interp, fr *frame, t types.Type, args []Value) Value

func init() {
	rtypeMethods = map[string]func(in *Interp, fr *frame, t types.Type, args []Value) Value{
		"Kind": func(in *Interp, fr *frame, t types.Type, args []Value) Value { return in.kindTerm(kindOf(t)) },
		"Size": func(in *Interp, fr *frame, t types.Type, args []Value) Value {
			return BV(wordBits, uint64(in.sizes.Sizeof(t)))
		},
		"Align": func(in *Interp, fr *frame, t types.Type, args []Value) Value {
			return BV(wordBits, uint64(in.sizes.Alignof(t)))
		},
		"String": func(in *Interp, fr *frame, t types.Type, args []Value) Value { return (&RType{t: t}).String() },
		"Name": func(in *Interp, fr *frame, t types.Type, args []Value) Value {
			switch n := t.(type) {
			case *types.Named:
				return n.Obj().Name()
			case *types.Basic:
				return n.Name()
			}
			return ""
		},
		"PkgPath": func(in *Interp, fr *frame, t types.Type, args []Value) Value {
			if n, ok := t.(*types.Named); ok && n.Obj().Pkg() != nil {
				return n.Obj().Pkg().Path()
			}
			return ""
		},
		"Elem": func(in *Interp, fr *frame, t types.Type, args []Value) Value {
			switch u := t.Underlying().(type) {
			case *types.Pointer:
				return in.rtype(u.Elem())
			case *types.Slice:
				return in.rtype(u.Elem())
			case *types.Array:
				return in.rtype(u.Elem())
			case *types.Map:
				return in.rtype(u.Elem())
			case *types.Chan:
				return in.rtype(u.Elem())
			}
			rpanic(fr, "reflect: Elem of invalid type "+(&RType{t: t}).String())
			return nil
		},
		"Key": func(in *Interp, fr *frame, t types.Type, args []Value) Value {
			if u, ok := t.Underlying().(*types.Map); ok {
				return in.rtype(u.Key())
			}
			rpanic(fr, "reflect: Key of non-map type "+(&RType{t: t}).String())
			return nil
		},
		"Len": func(in *Interp, fr *frame, t types.Type, args []Value) Value {
			if u, ok := t.Underlying().(*types.Array); ok {
				return BV(wordBits, uint64(u.Len()))
			}
			rpanic(fr, "reflect: Len of non-array type "+(&RType{t: t}).String())
			return nil
		},
		"NumIn": func(in *Interp, fr *frame, t types.Type, args []Value) Value {
			s, ok := t.Underlying().(*types.Signature)
			if !ok {
				rpanic(fr, "reflect: NumIn of non-func type "+(&RType{t: t}).String())
			}
			return BV(wordBits, uint64(s.Params().Len()))
		},
		"NumOut": func(in *Interp, fr *frame, t types.Type, args []Value) Value {
			s, ok := t.Underlying().(*types.Signature)
			if !ok {
				rpanic(fr, "reflect: NumOut of non-func type "+(&RType{t: t}).String())
			}
			return BV(wordBits, uint64(s.Results().Len()))
		},
		"In": func(in *Interp, fr *frame, t types.Type, args []Value) Value {
			s, ok := t.Underlying().(*types.Signature)
			if !ok {
				rpanic(fr, "reflect: In of non-func type "+(&RType{t: t}).String())
			}
			i := argInt(args[0])
			if i < 0 || i >= s.Params().Len() {
				in.boundsPanic(fr, fmt.Sprintf("index out of range [%d] with length %d", i, s.Params().Len()))
			}
			return in.rtype(s.Params().At(i).Type())
		},
		"Out": func(in *Interp, fr *frame, t types.Type, args []Value) Value {
			s, ok := t.Underlying().(*types.Signature)
			if !ok {
				rpanic(fr, "reflect: Out of non-func type "+(&RType{t: t}).String())
			}
			i := argInt(args[0])
			if i < 0 || i >= s.Results().Len() {
				in.boundsPanic(fr, fmt.Sprintf("index out of range [%d] with length %d", i, s.Results().Len()))
			}
			return in.rtype(s.Results().At(i).Type())
		},
		"IsVariadic": func(in *Interp, fr *frame, t types.Type, args []Value) Value {
			s, ok := t.Underlying().(*types.Signature)
			if !ok {
				rpanic(fr, "reflect: IsVariadic of non-func type "+(&RType{t: t}).String())
			}
			return Bool(s.Variadic())
		},
		"NumMethod": func(in *Interp, fr *frame, t types.Type, args []Value) Value {
			return BV(wordBits, uint64(len(sortedMethods(t))))
		},
		"Method": func(in *Interp, fr *frame, t types.Type, args []Value) Value {
			ms := sortedMethods(t)
			i := argInt(args[0])
			if i < 0 || i >= len(ms) {
				rpanic(fr, "reflect: Method index out of range")
			}
			return in.reflectMethodStruct(fr, t, ms[i], i)
		},
		"MethodByName": func(in *Interp, fr *frame, t types.Type, args []Value) Value {
			name := mustStr(fr, args[0], "MethodByName")
			for i, sel := range sortedMethods(t) {
				if sel.Obj().Name() == name {
					return Tuple{in.reflectMethodStruct(fr, t, sel, i), TrueT}
				}
			}
			return Tuple{&Struct{f: []Value{"", "", Iface{}, &RValue{}, BV(wordBits, 0)}}, FalseT}
		},
		"NumField": func(in *Interp, fr *frame, t types.Type, args []Value) Value {
			s, ok := t.Underlying().(*types.Struct)
			if !ok {
				rpanic(fr, "reflect: NumField of non-struct type "+(&RType{t: t}).String())
			}
			return BV(wordBits, uint64(s.NumFields()))
		},
		"AssignableTo": func(in *Interp, fr *frame, t types.Type, args []Value) Value {
			return Bool(in.assignable(t, rt(args[0])))
		},
		"ConvertibleTo": func(in *Interp, fr *frame, t types.Type, args []Value) Value {
			return Bool(types.ConvertibleTo(t, rt(args[0])))
		},
		"Implements": func(in *Interp, fr *frame, t types.Type, args []Value) Value {
			u := rt(args[0])
			it, ok := u.Underlying().(*types.Interface)
			if !ok {
				rpanic(fr, "reflect: non-interface type passed to Type.Implements")
			}
			return Bool(types.Implements(t, it))
		},
		"Comparable": func(in *Interp, fr *frame, t types.Type, args []Value) Value {
			return Bool(types.Comparable(t))
		},
		"Bits": func(in *Interp, fr *frame, t types.Type, args []Value) Value {
			return BV(wordBits, uint64(in.sizes.Sizeof(t)*8))
		},
	}
}

// deepEqual: reflect.DeepEqual on interface values (bounded depth).
func (in *Interp) deepEqual(fr *frame, a, b Value, depth int) *Term {
	ia, ok1 := a.(Iface)
	ib, ok2 := b.(Iface)
	if ok1 && ok2 {
		if ia.t == nil || ib.t == nil {
			return Bool(ia.t == nil && ib.t == nil)
		}
		if !types.Identical(ia.t, ib.t) {
			return FalseT
		}
		return in.deepEq(fr, ia.v, ib.v, ia.t, depth)
	}
	panic(pathAbort{"unsupported: DeepEqual on non-interface"})
}

func (in *Interp) deepEq(fr *frame, a, b Value, t types.Type, depth int) *Term {
	if depth > 8 {
		panic(pathAbort{"unsupported: DeepEqual depth"})
	}
	switch u := t.Underlying().(type) {
	case *types.Basic:
		return in.equal(fr, a, b)
	case *types.Struct:
		r := TrueT
		sa, sb := a.(*Struct), b.(*Struct)
		for i := range sa.f {
			r = BAnd(r, in.deepEq(fr, sa.f[i], sb.f[i], u.Field(i).Type(), depth+1))
		}
		return r
	case *types.Array:
		r := TrueT
		aa, ab := a.(*ArrObj), b.(*ArrObj)
		for i := range aa.elems {
			r = BAnd(r, in.deepEq(fr, aa.elems[i], ab.elems[i], u.Elem(), depth+1))
		}
		return r
	case *types.Slice:
		sa, sb := a.(Slice), b.(Slice)
		if sa.nilS != sb.nilS {
			return FalseT
		}
		if sa.len != sb.len {
			return FalseT
		}
		r := TrueT
		for i := 0; i < sa.len; i++ {
			r = BAnd(r, in.deepEq(fr, in.sliceGet(fr, sa, i), in.sliceGet(fr, sb, i), u.Elem(), depth+1))
		}
		return r
	case *types.Pointer:
		if isNilPtr(a) || isNilPtr(b) {
			return Bool(isNilPtr(a) && isNilPtr(b))
		}
		if in.equal(fr, a, b) == TrueT {
			return TrueT
		}
		return in.deepEq(fr, in.load(fr, a, u.Elem()), in.load(fr, b, u.Elem()), u.Elem(), depth+1)
	case *types.Interface:
		return in.deepEqual(fr, a, b, depth+1)
	case *types.Signature:
		fa, _ := a.(*FuncV)
		fb, _ := b.(*FuncV)
		return Bool(fa == nil && fb == nil)
	case *types.Map:
		ma, _ := a.(*MapV)
		mb, _ := b.(*MapV)
		if (ma == nil) != (mb == nil) {
			return FalseT
		}
		if ma == mb {
			return TrueT
		}
		if ma.length() != mb.length() {
			return FalseT
		}
		r := TrueT
		for i := range ma.keys {
			if !ma.live[i] {
				continue
			}
			j := in.mapFind(fr, mb, ma.keys[i])
			if j < 0 {
				return FalseT
			}
			r = BAnd(r, in.deepEq(fr, ma.vals[i], mb.vals[j], u.Elem(), depth+1))
		}
		return r
	}
	panic(pathAbort{"unsupported: DeepEqual on " + t.String()})
}

// ---- unsafe views of reflect.Value (hack.Value / bytecode.value / unexports2.Value) ----

func (in *Interp) castFieldAddr(fr *frame, c CastPtr, field int, pt types.Type) Value {
	st, _ := pt.Underlying().(*types.Pointer).Elem().Underlying().(*types.Struct)
	if cell, ok := c.p.(*Value); ok && cell != nil {
		switch (*cell).(type) {
		case *RValue:
			var ft types.Type
			if st != nil {
				ft = st.Field(field).Type()
			}
			return CastPtr{p: rvField{cell: cell, field: field}, t: ft}
		case Iface, FabIface:
			// hack.Iface / hack.Eface overlay on an interface cell
			return CastPtr{p: ifaceWord{cell: cell, word: field}, t: st.Field(field).Type()}
		case *FuncV:
			// hack.Func overlay on a func variable?
		case *Struct:
			s := (*cell).(*Struct)
			return &s.f[field]
		}
	}
	if f, ok := c.p.(*FuncV); ok && field == 0 {
		// (*hack.Func)(ptrToFuncval).CodePtr
		return CastPtr{p: funcCodeWord{f: f}, t: st.Field(0).Type()}
	}
	if ip, ok := c.p.(ImgPtr); ok && st != nil {
		off := in.fieldOffset(st, field)
		return CastPtr{p: ImgPtr{addr: Add(ip.addr, BV(64, uint64(off)))}, t: st.Field(field).Type()}
	}
	panic(pathAbort{fmt.Sprintf("unsupported: field %d through cast of %T at %s", field, c.p, fr.site())})
}

// FabIface is an interface value whose two words were written through a hack.Iface
// overlay (goom fabricates an itab): tab points at a hack.Itab struct cell.
type FabIface struct {
	tab  Value
	data Value
}

// ITabTok stands for the (opaque) itab / type word of an ordinary interface value.
type ITabTok struct {
	t types.Type
}

func (in *Interp) itabToken(t types.Type) Value {
	if t == nil {
		return (*Value)(nil)
	}
	key := "itab:" + types.TypeString(t, nil)
	if c, ok := in.itabToks[key]; ok {
		return c
	}
	c := new(Value)
	*c = &ITabTok{t: t}
	if in.itabToks == nil {
		in.itabToks = map[string]*Value{}
	}
	in.itabToks[key] = c
	return c
}

// ifaceWords: the two machine words of an interface value.
func (in *Interp) ifaceWords(fr *frame, v Value) (Value, Value) {
	switch x := v.(type) {
	case FabIface:
		return x.tab, x.data
	case Iface:
		if x.t == nil {
			return (*Value)(nil), (*Value)(nil)
		}
		return in.itabToken(x.t), in.ifaceDataPtr(fr, x)
	}
	panic(pathAbort{fmt.Sprintf("unsupported: interface words of %T at %s", v, fr.site())})
}

// ifaceFromWords rebuilds an interface value from two words.
func (in *Interp) ifaceFromWords(fr *frame, tab, data Value) Value {
	if isNilPtr(tab) {
		return Iface{}
	}
	if tp, ok := tab.(*Value); ok {
		if tok, ok := (*tp).(*ITabTok); ok {
			switch kindOf(tok.t) {
			case kPtr, kFunc, kMap, kChan, kUnsafePointer:
				return Iface{t: tok.t, v: data}
			}
			if dp, ok := data.(*Value); ok && dp != nil {
				return Iface{t: tok.t, v: copyVal(*dp)}
			}
			return Iface{t: tok.t, v: zero(tok.t)}
		}
	}
	return FabIface{tab: tab, data: data}
}

type ifaceWord struct {
	cell *Value
	word int
}

type funcCodeWord struct {
	f *FuncV
}

func (in *Interp) reflectCastLoad(fr *frame, c CastPtr, t types.Type) Value {
	switch p := c.p.(type) {
	case rvField:
		r := (*p.cell).(*RValue)
		switch p.field {
		case 0:
			return in.typeToken(r.t)
		case 1:
			return in.rvDataPtr(fr, r)
		case 2:
			// kind bits, plus flagIndir (1<<7) when the ptr word points at the data
			fl := uint64(kindOf(r.t))
			if r.ptr != nil || !isDirectIface(r.t) {
				fl |= rvFlagIndir
			}
			return BV(64, fl)
		}
	case funcCodeWord:
		return in.funcCode(p.f)
	case ifaceWord:
		tab, data := in.ifaceWords(fr, *p.cell)
		if p.word == 0 {
			return tab
		}
		return data
	case *FuncV:
		// *(*uintptr)(ptrToFuncval): the code pointer
		if w, _, ok := intWidth(c.t); ok && w == 64 {
			return in.funcCode(p)
		}
	}
	return nil
}

func (in *Interp) reflectCastStore(fr *frame, c CastPtr, v Value, t types.Type) bool {
	switch p := c.p.(type) {
	case rvField:
		r := (*p.cell).(*RValue)
		if p.field == 2 {
			k, ok := v.(*Term).Const()
			if ok && k == kFunc && kindOf(r.t) == kFunc {
				// goom's NewFuncWithCodePtr: flag := Func (drops flagIndir): the Value's ptr word
				// (a pointer to a uintptr holding the code pointer) becomes the func value itself.
				nr := *r
				if r.ptr != nil {
					code := in.load(fr, r.ptr, types.Typ[types.Uintptr])
					ct, isT := code.(*Term)
					if !isT {
						panic(pathAbort{"unsupported: flag overwrite on non-uintptr backing"})
					}
					in.nextFuncID++
					f := &FuncV{typ: r.t, id: in.nextFuncID, name: "funcAtCodePtr", code: ct}
					f.native = func(in *Interp, fr *frame, args []Value) Value {
						return in.callCodePtr(fr, f, args)
					}
					in.extraFuncs = append(in.extraFuncs, f)
					nr.v, nr.ptr, nr.flag = f, nil, 0
				}
				in.setCell(p.cell, &nr)
				return true
			}
		}
		panic(pathAbort{fmt.Sprintf("unsupported: store to reflect.Value word %d at %s", p.field, fr.site())})
	case ifaceWord:
		tab, data := in.ifaceWords(fr, *p.cell)
		if p.word == 0 {
			tab = v
		} else {
			data = v
		}
		in.setCell(p.cell, in.ifaceFromWords(fr, tab, data))
		return true
	case funcCodeWord:
		// overwrite code pointer of a func value
		nf := p.f
		in.path.undo = append(in.path.undo, undoEntry{fn: func(old *Term) func() { return func() { nf.code = old } }(nf.code)})
		nf.code = v.(*Term)
		return true
	}
	return false
}

func (in *Interp) typeToken(t types.Type) Value {
	if t == nil {
		return (*Value)(nil)
	}
	key := types.TypeString(t, nil)
	r, ok := in.rtypes[key]
	if !ok {
		r = &RType{t: t}
		in.rtypes[key] = r
	}
	if r.cell == nil {
		r.cell = new(Value)
		*r.cell = r
	}
	return r.cell
}

const rvFlagIndir = 1 << 7

// isDirectIface: pointer-shaped types, whose value is itself the data word of an interface
// or reflect.Value (cmd/compile types.IsDirectIface).
func isDirectIface(t types.Type) bool {
	if t == nil {
		return false
	}
	switch u := t.Underlying().(type) {
	case *types.Pointer, *types.Chan, *types.Map, *types.Signature:
		return true
	case *types.Basic:
		return u.Kind() == types.UnsafePointer
	case *types.Array:
		return u.Len() == 1 && isDirectIface(u.Elem())
	case *types.Struct:
		return u.NumFields() == 1 && isDirectIface(u.Field(0).Type())
	}
	return false
}

// directLeaf: the single pointer word of a pointer-shaped aggregate value.
func directLeaf(v Value) Value {
	for {
		switch x := v.(type) {
		case *Struct:
			if len(x.f) != 1 {
				return v
			}
			v = x.f[0]
		case *ArrObj:
			if len(x.elems) != 1 {
				return v
			}
			v = x.elems[0]
		default:
			return v
		}
	}
}

// directWrap: the pointer-shaped aggregate of type t whose single word is w.
func (in *Interp) directWrap(w Value, t types.Type) Value {
	switch u := t.Underlying().(type) {
	case *types.Struct:
		return &Struct{f: []Value{in.directWrap(w, u.Field(0).Type())}}
	case *types.Array:
		z := zero(t)
		if a, ok := z.(*ArrObj); ok && len(a.elems) == 1 {
			a.elems[0] = in.directWrap(w, u.Elem())
			return a
		}
		panic(pathAbort{"unsupported: pointer-shaped array value"})
	}
	if c, ok := w.(CastPtr); ok {
		// the word is re-typed by the type word: drop the cast when it matches the cell
		return CastPtr{p: c.p, t: t}
	}
	return w
}

// rvDataPtr: the ptr word of a reflect.Value.
func (in *Interp) rvDataPtr(fr *frame, r *RValue) Value {
	if r.ptr == nil && isDirectIface(r.t) {
		switch kindOf(r.t) {
		case kFunc, kPtr, kMap, kChan, kUnsafePointer:
		default:
			return directLeaf(r.v)
		}
	}
	switch kindOf(r.t) {
	case kFunc, kPtr, kMap, kChan, kUnsafePointer:
		if r.ptr != nil { // flagIndir
			return r.ptr
		}
		return r.v
	}
	if r.ptr != nil {
		return r.ptr
	}
	cell := new(Value)
	*cell = r.v
	return cell
}

func (in *Interp) ifaceDataPtr(fr *frame, ifc Iface) Value {
	if ifc.t == nil {
		return (*Value)(nil)
	}
	switch kindOf(ifc.t) {
	case kPtr, kFunc, kMap, kChan, kUnsafePointer:
		return ifc.v
	}
	cell := new(Value)
	*cell = ifc.v
	return cell
}

// callCodePtr: calling a func value fabricated from a raw code pointer: resolve to the
// function whose code token equals the pointer.
func (in *Interp) callCodePtr(fr *frame, f *FuncV, args []Value) Value {
	for _, g := range in.funcVals {
		if g.code != nil && g.code == f.code {
			return in.call(fr, g, args)
		}
	}
	for _, g := range in.methodExprs {
		if g.code != nil && g.code == f.code {
			return in.call(fr, g, args)
		}
	}
	if h, ok := in.reroute["verif.callCodePtr"]; ok {
		_ = h
	}
	panic(pathAbort{"unsupported: call through raw code pointer " + f.code.String() + " at " + fr.site()})
}

var _ = strings.Contains

// rvFromWords builds a reflect.Value from its three words (typ, ptr, flag) as written by
// goom through a hack.Value overlay.
func (in *Interp) rvFromWords(fr *frame, s *Struct) Value {
	tp, _ := s.f[0].(*Value)
	if tp == nil {
		return &RValue{}
	}
	rt, ok := (*tp).(*RType)
	if !ok {
		panic(pathAbort{"unsupported: reflect.Value built from unknown type word at " + fr.site()})
	}
	switch kindOf(rt.t) {
	case kFunc, kPtr, kMap, kChan, kUnsafePointer:
		return &RValue{t: rt.t, v: s.f[1]}
	}
	if isDirectIface(rt.t) {
		indir := true
		if ft, ok := s.f[2].(*Term); ok {
			if k, isC := ft.Const(); isC {
				indir = k&rvFlagIndir != 0
			}
		}
		if !indir {
			return &RValue{t: rt.t, v: in.directWrap(s.f[1], rt.t)}
		}
	}
	// indirect kinds: the ptr word points at the data
	return &RValue{t: rt.t, ptr: s.f[1]}
}
