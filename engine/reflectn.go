package main

// Engine-native reflect (DESIGN §3.5/§3.14). Filled in incrementally; see reflect2.go for
// the Value/Type method tables.

import (
	"fmt"
	"go/types"
)

// RType models reflect.Type (the dynamic value inside the reflect.Type interface).
type RType struct {
	t    types.Type
	cell *Value
}

func (r *RType) String() string {
	return types.TypeString(r.t, func(p *types.Package) string { return p.Name() })
}

// RValue models reflect.Value.
type RValue struct {
	t    types.Type // nil: the zero Value (invalid)
	v    Value      // the value (copy) — for addressable values, ptr is the cell
	ptr  Value      // pointer to the cell when addressable / obtained through Elem()
	flag int
}

const (
	rvAddr = 1 << iota
	rvRO
	rvForcedFunc // flag overwritten to reflect.Func by goom hacks
)

type rvField struct {
	cell  *Value
	field int
}

func isReflectValueType(t types.Type) bool {
	n, ok := t.(*types.Named)
	return ok && n.Obj().Pkg() != nil && n.Obj().Pkg().Path() == "reflect" && n.Obj().Name() == "Value"
}

func reflectZeroFor(t types.Type) Value {
	if isReflectValueType(t) {
		return &RValue{}
	}
	return nil
}

func (in *Interp) rtype(t types.Type) Value {
	return Iface{t: rtypeMarker, v: &RType{t: t}}
}

var rtypeMarker = types.NewNamed(types.NewTypeName(0, nil, "rtype", nil), types.NewStruct(nil, nil), nil)

func (in *Interp) reflectField(fr *frame, v Value, field int, t types.Type) Value {
	panic(pathAbort{fmt.Sprintf("unsupported: field %d of %T at %s", field, v, fr.site())})
}

func (in *Interp) reflectFieldAddr(fr *frame, p *Value, field int, pt types.Type) Value {
	panic(pathAbort{fmt.Sprintf("unsupported: fieldAddr %d on cell holding %T at %s", field, *p, fr.site())})
}
