package main

// Value representation of the symbolic interpreter.
//
//   *Term            integers (bit-vectors of their Go width) and booleans
//   string           concrete strings;  *SymStr tagged symbolic strings
//   *Struct          struct value (copied on load/store, stored in place)
//   *ArrObj          array value / backing store of slices
//   Slice            slice header: heap backed or a window of the process image
//   *Value           pointer to a cell;  ElemPtr / SymElemPtr / ImgPtr other pointers
//   Iface            interface value (dynamic type + value); zero Iface is nil
//   *FuncV           function value / closure / native
//   *MapV            map
//   Tuple            multiple results
//   *RType, *RValue  engine-native reflect.Type / reflect.Value (reflectn.go)

import (
	"fmt"
	"go/types"
	"strings"

	"golang.org/x/tools/go/ssa"
)

type Value interface{}

type Struct struct {
	f []Value
}

type ArrObj struct {
	elems []Value
	id    int
}

type Slice struct {
	arr *ArrObj
	off int
	len int
	cap int
	// process-image window
	img  bool
	addr *Term
	nilS bool // nil slice
}

type ElemPtr struct {
	arr *ArrObj
	idx int
}

type SymElemPtr struct {
	arr *ArrObj
	off int   // slice offset
	n   int   // valid length (idx < n checked by creator)
	idx *Term // 64-bit
}

type ImgPtr struct {
	addr *Term
}

// CastPtr is a pointer reinterpreted through unsafe.Pointer as pointing to type T.
type CastPtr struct {
	p Value
	t types.Type
}

type Iface struct {
	t types.Type
	v Value
}

type Tuple []Value

type FuncV struct {
	fn     *ssa.Function
	env    []Value
	native func(in *Interp, fr *frame, args []Value) Value
	name   string
	addr   *Term // address of the func value (closure object); lazily assigned
	code   *Term // code address
	typ    types.Type
	// reflect.MakeFunc closure: the Go func([]reflect.Value) []reflect.Value
	makeFuncImpl *FuncV
	id           int
	isMakeFunc   bool
	boundOf      *ssa.Function
}

type MapV struct {
	rc   Value // race-detector pseudo cell
	keys []Value
	vals []Value
	live []bool
	id   int
}

type SymStr struct {
	tag   string
	args  []Value
	parts []strPart
}

type iterV struct {
	m   *MapV
	str string
	i   int
	isS bool
}

// goPanic is a Go-level panic travelling through interpreted frames.
type goPanic struct {
	val  Value
	kind string // "explicit", "index", "nil", "slice", "typeassert", "div", "reflect", ...
	site string
}

func (p *goPanic) String() string {
	return fmt.Sprintf("panic[%s] %s at %s", p.kind, valString(p.val), p.site)
}

func valString(v Value) string {
	switch x := v.(type) {
	case nil:
		return "nil"
	case *Term:
		return x.String()
	case string:
		return fmt.Sprintf("%q", x)
	case Iface:
		if x.t == nil {
			return "nil-iface"
		}
		// error values: try to find message
		return fmt.Sprintf("iface(%s: %s)", x.t, valString(x.v))
	case *Struct:
		var sb strings.Builder
		sb.WriteString("{")
		for i, f := range x.f {
			if i > 0 {
				sb.WriteString(" ")
			}
			if i > 6 {
				sb.WriteString("…")
				break
			}
			sb.WriteString(valString(f))
		}
		sb.WriteString("}")
		return sb.String()
	case *Value:
		if x == nil {
			return "nilptr"
		}
		return "&" + valString(*x)
	case *FuncV:
		if x == nil {
			return "nilfunc"
		}
		if x.fn != nil {
			return "func " + x.fn.String()
		}
		return "func " + x.name
	case Slice:
		return fmt.Sprintf("slice[len=%d]", x.len)
	case *SymStr:
		return "symstr(" + x.tag + ")"
	}
	return fmt.Sprintf("%T", v)
}

// ---- type helpers ----

var wordBits = 64

func intWidth(t types.Type) (w int, signed bool, ok bool) {
	b, isB := t.Underlying().(*types.Basic)
	if !isB {
		return 0, false, false
	}
	switch b.Kind() {
	case types.Bool, types.UntypedBool:
		return 0, false, true
	case types.Int8:
		return 8, true, true
	case types.Int16:
		return 16, true, true
	case types.Int32, types.UntypedRune:
		return 32, true, true
	case types.Int64:
		return 64, true, true
	case types.Int, types.UntypedInt:
		return wordBits, true, true
	case types.Uint8:
		return 8, false, true
	case types.Uint16:
		return 16, false, true
	case types.Uint32:
		return 32, false, true
	case types.Uint64:
		return 64, false, true
	case types.Uint, types.Uintptr:
		return wordBits, false, true
	}
	return 0, false, false
}

func isString(t types.Type) bool {
	b, ok := t.Underlying().(*types.Basic)
	return ok && b.Info()&types.IsString != 0
}
func isFloat(t types.Type) bool {
	b, ok := t.Underlying().(*types.Basic)
	return ok && b.Info()&(types.IsFloat|types.IsComplex) != 0
}
func isUnsafePtr(t types.Type) bool {
	b, ok := t.Underlying().(*types.Basic)
	return ok && b.Kind() == types.UnsafePointer
}
func isScalarElem(t types.Type) bool {
	_, _, ok := intWidth(t)
	return ok
}

// FloatV is an opaque float (no arithmetic is modelled).
// FloatSym: a float64 obtained from a symbolic integer; bits is its IEEE-754 pattern.
type FloatSym struct {
	bits *Term
}

type FloatV struct {
	v float64
}

var nextObjID int

func newArr(n int) *ArrObj {
	nextObjID++
	return &ArrObj{elems: make([]Value, n), id: nextObjID}
}

// zero returns the zero value of type t.
func zero(t types.Type) Value {
	switch u := t.Underlying().(type) {
	case *types.Basic:
		if w, _, ok := intWidth(t); ok {
			if w == 0 {
				return FalseT
			}
			return BV(w, 0)
		}
		if isString(t) {
			return ""
		}
		if isFloat(t) {
			return FloatV{0}
		}
		if u.Kind() == types.UnsafePointer {
			return (*Value)(nil)
		}
		if u.Kind() == types.UntypedNil {
			return nil
		}
		panic("zero: basic " + t.String())
	case *types.Struct:
		if rv := reflectZeroFor(t); rv != nil {
			return rv
		}
		s := &Struct{f: make([]Value, u.NumFields())}
		for i := range s.f {
			s.f[i] = zero(u.Field(i).Type())
		}
		return s
	case *types.Array:
		a := newArr(int(u.Len()))
		// share immutable scalar zero
		if isScalarElem(u.Elem()) {
			z := zero(u.Elem())
			for i := range a.elems {
				a.elems[i] = z
			}
		} else {
			for i := range a.elems {
				a.elems[i] = zero(u.Elem())
			}
		}
		return a
	case *types.Pointer:
		return (*Value)(nil)
	case *types.Slice:
		return Slice{nilS: true}
	case *types.Interface:
		return Iface{}
	case *types.Signature:
		return (*FuncV)(nil)
	case *types.Map:
		return (*MapV)(nil)
	case *types.Chan:
		return (*Value)(nil)
	case *types.Tuple:
		if u.Len() == 0 {
			return nil
		}
		tp := make(Tuple, u.Len())
		for i := range tp {
			tp[i] = zero(u.At(i).Type())
		}
		return tp
	case *types.TypeParam:
		panic("zero of type parameter")
	}
	panic("zero: " + t.String())
}

// copyVal deep-copies aggregates (value semantics).
func copyVal(v Value) Value {
	switch x := v.(type) {
	case *Struct:
		n := &Struct{f: make([]Value, len(x.f))}
		for i, f := range x.f {
			n.f[i] = copyVal(f)
		}
		return n
	case *ArrObj:
		n := newArr(len(x.elems))
		for i, e := range x.elems {
			n.elems[i] = copyVal(e)
		}
		return n
	case Tuple:
		n := make(Tuple, len(x))
		for i, e := range x {
			n[i] = copyVal(e)
		}
		return n
	case *RValue:
		c := *x
		return &c
	}
	return v
}

func isNilPtr(v Value) bool {
	switch x := v.(type) {
	case nil:
		return true
	case *Value:
		return x == nil
	case CastPtr:
		return isNilPtr(x.p)
	}
	return false
}
