package main

// Path exploration by re-execution: every path is run from the harness entry following a
// recorded decision prefix; at the first undecided symbolic branch the solver is asked
// which sides are feasible. Writes to pre-existing (package-level) state are undone at
// the end of each path through an undo log.

import (
	"fmt"
	"go/types"
	"hash/fnv"
	"os"
	"runtime/debug"
	"sort"
	"strings"
	"time"

	"golang.org/x/tools/go/ssa"
)

type undoEntry struct {
	p   *Value
	old Value
	fn  func()
}

type decision struct {
	choice int  // taken alternative
	n      int  // number of alternatives
	forced bool // only one alternative feasible (no backtracking)
	// alternatives still to explore, in order
	todo []int
}

type Path struct {
	pc        []*Term
	pcSet     map[*Term]bool
	dec       []*decision
	dpos      int
	undo      []undoEntry
	image     *Term
	imgWrites int
	imgLog    []*Term // address of every byte stored into the image, in order
	imgUniq   []*Term // distinct address terms
	imgSeen   map[*Term]bool
	steps     int
	nondets   map[string]*Term
	nondetOrd []string
	witnesses []witness
	recovered []*goPanic
	reached   []string
	threads   *threadState
	notes     []string
	ghost     map[string]Value
	snaps     []*Term
	funcsWithAddr []*FuncV
	logCalls  int
	failedHere bool
	dom       map[*Term]*bitset
	kb        map[*Term]kbits
	lastSchedule []int
}

type witness struct {
	name string
	t    *Term
}

type Violation struct {
	AssertID string            `json:"assert_id"`
	Class    string            `json:"class,omitempty"`
	Harness  string            `json:"harness"`
	Site     string            `json:"site"`
	Model    map[string]string `json:"model"`
	Schedule []int             `json:"schedule,omitempty"`
	Note     string            `json:"note,omitempty"`
	Replay   string            `json:"replay,omitempty"`
	Status   string            `json:"status"` // reproduced | not-reproduced | not-replayed
	Kind     string            `json:"kind"`   // assert | panic
}

type HarnessStats struct {
	Name         string   `json:"name"`
	Paths        int      `json:"paths"`
	Asserts      int      `json:"assertions_checked"`
	Trivial      int      `json:"assertions_trivially_true"`
	Discharged   int      `json:"assertions_discharged_by_solver"`
	Violated     int      `json:"assertions_violated"`
	Unknown      int      `json:"unknown"`
	Aborted      int      `json:"aborted_paths"`
	AbortReasons []string `json:"abort_reasons,omitempty"`
	Reached      []string `json:"reach_witnesses"`
	Forks        int      `json:"symbolic_forks"`
	Merges       int      `json:"diamond_merges"`
	Queries      int      `json:"solver_queries"`
	SolverS      float64  `json:"solver_s"`
	WallS        float64  `json:"wall_s"`
	Steps        int64    `json:"ssa_steps"`
	MaxDepth     int      `json:"max_decisions"`
	Panics       int      `json:"panic_paths"`
	Bounds       string   `json:"bounds,omitempty"`
	AssertIDs    []string `json:"assert_ids"`
	States       int      `json:"sched_states,omitempty"`
	Transitions  int      `json:"sched_transitions,omitempty"`
	Sample       string   `json:"sample,omitempty"`
	NondetNames  []string `json:"nondets,omitempty"`
	DomainDecided int     `json:"branches_decided_by_byte_domain"`
	Infeasible   int      `json:"infeasible_panic_paths_discarded"`
}

type Interp struct {
	prog       *ssa.Program
	pkgs       map[string]*ssa.Package
	sizes      types.Sizes
	fnInfos    map[*ssa.Function]*fnInfo
	constCache map[*ssa.Const]Value
	globals    map[*ssa.Global]*Value
	funcVals   map[*ssa.Function]*FuncV
	nextFuncID int
	nextMapID  int
	path       *Path
	maxSteps   int
	maxSymIndex int
	maxDecisions int
	intrinsics map[string]func(in *Interp, fr *frame, args []Value) Value
	reroute    map[string]*ssa.Function
	stubs      map[string]func(in *Interp, fr *frame, args []Value) Value
	fnsSeen    map[string]int
	stubsSeen  map[string]int
	solver     *Solver
	stats      *HarnessStats
	violations []*Violation
	seenViol   map[string]bool
	harness    string
	panicsAre  string // "violation" | "allowed"
	assertIDs  map[string]bool
	addrs      *addrSpace
	noMerge    bool
	arch       string
	queryDump  map[string]string // assert id -> one smt2 script (first discharged)
	rtypes     map[string]*RType
	queryHashes map[uint64]bool
	pathHashes map[uint64]bool
	initPkg    *ssa.Package
	initMode   bool
	allowUserInit map[string]bool
	methodExprs map[*ssa.Function]*FuncV
	syncMaps    map[*Value]*MapV // state of sync.Map values, by address
	synthByName map[string]*ssa.Function
	extraFuncs []*FuncV
	symStrHooks map[string]symStrHook
	xWanted    int
	noDomain   bool
	approxDomain bool // accept 'both sides feasible' from the domains without asking the solver
	fmtDepth   int
	itabToks   map[string]*Value
	xPerHarness map[string]int
	xsamples   []*XSample
}

func NewInterp(prog *ssa.Program, arch string) *Interp {
	in := &Interp{
		prog: prog, pkgs: map[string]*ssa.Package{}, fnInfos: map[*ssa.Function]*fnInfo{},
		constCache: map[*ssa.Const]Value{}, globals: map[*ssa.Global]*Value{}, funcVals: map[*ssa.Function]*FuncV{},
		maxSteps: 200_000_000, maxSymIndex: 64, maxDecisions: 100000,
		reroute: map[string]*ssa.Function{}, fnsSeen: map[string]int{}, stubsSeen: map[string]int{},
		seenViol: map[string]bool{}, assertIDs: map[string]bool{}, arch: arch,
		queryDump: map[string]string{}, rtypes: map[string]*RType{}, queryHashes: map[uint64]bool{}, pathHashes: map[uint64]bool{}, symStrHooks: map[string]symStrHook{}, xPerHarness: map[string]int{},
	}
	in.sizes = types.SizesFor("gc", arch)
	for _, p := range prog.AllPackages() {
		in.pkgs[p.Pkg.Path()] = p
	}
	in.intrinsics = intrinsicTable()
	in.stubs = stubTable()
	in.addrs = newAddrSpace()
	return in
}

// ---- branching ----

func (p *Path) addPC(c *Term) {
	if c == TrueT || p.pcSet[c] {
		return
	}
	// split conjunctions for better syntactic reuse
	if c.op == OpBAnd {
		p.addPC(c.args[0])
		p.addPC(c.args[1])
		return
	}
	p.pc = append(p.pc, c)
	p.pcSet[c] = true
	p.domNote(c)
	p.kbNote(c)
	noteRange(c)
}

func (p *Path) known(c *Term) (bool, bool) {
	if p.pcSet[c] {
		return true, true
	}
	if p.pcSet[BNot(c)] {
		return false, true
	}
	if c.op == OpBAnd {
		a, oka := p.known(c.args[0])
		b, okb := p.known(c.args[1])
		if oka && okb {
			return a && b, true
		}
		if (oka && !a) || (okb && !b) {
			return false, true
		}
	}
	if c.op == OpBOr {
		a, oka := p.known(c.args[0])
		b, okb := p.known(c.args[1])
		if oka && okb {
			return a || b, true
		}
		if (oka && a) || (okb && b) {
			return true, true
		}
	}
	return false, false
}

// branch decides a symbolic condition on the current path, forking when both sides are
// feasible. Returns the side taken.
func (in *Interp) branch(c *Term, fr *frame) bool {
	if c == TrueT {
		return true
	}
	if c == FalseT {
		return false
	}
	p := in.path
	if v, ok := p.known(c); ok {
		return v
	}
	if p.dpos < len(p.dec) {
		d := p.dec[p.dpos]
		p.dpos++
		if d.n != 2 {
			panic(fmt.Sprintf("decision replay mismatch: expected %d-way at %s", d.n, fr.site()))
		}
		if d.choice == 1 {
			p.addPC(c)
			return true
		}
		p.addPC(BNot(c))
		return false
	}
	if len(p.dec) >= in.maxDecisions {
		panic(pathAbort{"decision depth bound exceeded (unwinding failure) at " + fr.site()})
	}
	d := &decision{n: 2}
	ft, ff, ok := p.domDecide(c)
	if !ok {
		ft, ff, ok = p.kbDecide(c)
	}
	if ok && ft && ff && !in.approxDomain {
		// the domain cannot decide; without approx mode the solver gives the exact answer
		ok = false
	}
	if ok && !in.noDomain {
		// decided by the value-set / known-bits domain, no solver call
		in.stats.DomainDecided++
		switch {
		case ft && ff:
			d.choice = 1
			d.todo = []int{0}
			in.stats.Forks++
		case ft:
			d.choice, d.forced = 1, true
		default:
			d.choice, d.forced = 0, true
		}
		p.dec = append(p.dec, d)
		p.dpos++
		if d.choice == 1 {
			p.addPC(c)
			return true
		}
		p.addPC(BNot(c))
		return false
	}
	if os.Getenv("SYMGO_BRANCHDBG") != "" {
		fmt.Fprintf(os.Stderr, "SOLVER-BRANCH at %s: %s\n", fr.site(), c.String())
	}
	rt, _ := in.solver.Check(p.pc, c, nil)
	if rt == Unsat {
		d.choice, d.forced = 0, true
	} else {
		rf, _ := in.solver.Check(p.pc, BNot(c), nil)
		if rf == Unsat {
			d.choice, d.forced = 1, true
		} else {
			d.choice = 1
			d.todo = []int{0}
			in.stats.Forks++
			if rt == Unknown || rf == Unknown {
				in.stats.Unknown++
			}
		}
	}
	p.dec = append(p.dec, d)
	p.dpos++
	if d.choice == 1 {
		p.addPC(c)
		return true
	}
	p.addPC(BNot(c))
	return false
}

// choose makes an n-way concrete decision (schedules, nondeterministic choice).
func (in *Interp) choose(n int, what string) int {
	if n <= 1 {
		return 0
	}
	p := in.path
	if p.dpos < len(p.dec) {
		d := p.dec[p.dpos]
		p.dpos++
		if d.n != n {
			panic(fmt.Sprintf("decision replay mismatch: %d-way vs %d-way (%s)", d.n, n, what))
		}
		return d.choice
	}
	if len(p.dec) >= in.maxDecisions {
		panic(pathAbort{"decision depth bound exceeded (unwinding failure) in " + what})
	}
	d := &decision{n: n, choice: 0}
	for i := 1; i < n; i++ {
		d.todo = append(d.todo, i)
	}
	p.dec = append(p.dec, d)
	p.dpos++
	in.stats.Forks++
	return 0
}

// tryMerge turns a small pure diamond/triangle into ite-valued phis. It handles
//   if c { pure...; jump J } else { pure...; jump J }   and the triangle forms,
// where "pure" = BinOp/UnOp(non-load)/Convert/ChangeType/Extract-free instructions that
// cannot panic. Returns true when control was transferred to J.
func (in *Interp) tryMerge(fr *frame, x *ssa.If, c *Term) bool {
	if in.noMerge {
		return false
	}
	if v, ok := in.path.known(c); ok {
		_ = v
		return false
	}
	b := fr.block
	t, e := b.Succs[0], b.Succs[1]
	var join *ssa.BasicBlock
	tPure := pureBlock(t) && len(t.Preds) == 1
	ePure := pureBlock(e) && len(e.Preds) == 1
	switch {
	case tPure && ePure && t.Succs[0] == e.Succs[0]:
		join = t.Succs[0]
	case tPure && t.Succs[0] == e:
		join = e
		ePure = false
	case ePure && e.Succs[0] == t:
		join = t
		tPure = false
	default:
		return false
	}
	if len(join.Preds) != 2 {
		return false
	}
	// evaluate arms
	evalArm := func(blk *ssa.BasicBlock) bool {
		for _, ins := range blk.Instrs[:len(blk.Instrs)-1] {
			fr.cur = ins
			in.visit(fr, ins)
		}
		return true
	}
	var tPred, ePred *ssa.BasicBlock = b, b
	if tPure && join != t {
		evalArm(t)
		tPred = t
	}
	if ePure && join != e {
		evalArm(e)
		ePred = e
	}
	// phis of join
	var vals []Value
	n := 0
	for _, ins := range join.Instrs {
		phi, ok := ins.(*ssa.Phi)
		if !ok {
			break
		}
		var tv, ev Value
		for k, pred := range join.Preds {
			if pred == tPred {
				tv = fr.get(phi.Edges[k])
			}
			if pred == ePred {
				ev = fr.get(phi.Edges[k])
			}
		}
		tt, ok1 := tv.(*Term)
		et, ok2 := ev.(*Term)
		if !ok1 || !ok2 {
			if tv == ev {
				vals = append(vals, tv)
				n++
				continue
			}
			return false
		}
		vals = append(vals, Ite(c, tt, et))
		n++
	}
	for k := 0; k < n; k++ {
		fr.set(join.Instrs[k].(*ssa.Phi), vals[k])
	}
	in.stats.Merges++
	// enter join after its phis: emulate by setting prev=nil so runFrame skips phi handling
	fr.prev = b
	fr.block = join
	fr.skip = n + 1
	return true
}

func pureBlock(b *ssa.BasicBlock) bool {
	if len(b.Instrs) > 24 || len(b.Succs) != 1 {
		return false
	}
	for _, ins := range b.Instrs[:len(b.Instrs)-1] {
		switch x := ins.(type) {
		case *ssa.BinOp:
			switch x.Op.String() {
			case "/", "%", "<<", ">>":
				// may panic (division by zero, negative shift) unless divisor/count constant
				if _, ok := x.Y.(*ssa.Const); !ok {
					if x.Op.String() == "/" || x.Op.String() == "%" {
						return false
					}
					if _, signed, _ := intWidth(x.Y.Type()); signed {
						return false
					}
				}
			}
			if _, _, ok := intWidth(x.X.Type()); !ok {
				return false
			}
		case *ssa.UnOp:
			if x.Op.String() == "*" || x.Op.String() == "<-" {
				return false
			}
		case *ssa.Convert:
			_, _, ok1 := intWidth(x.X.Type())
			_, _, ok2 := intWidth(x.Type())
			if !ok1 || !ok2 {
				return false
			}
		case *ssa.ChangeType, *ssa.DebugRef:
		case *ssa.Phi:
			return false
		default:
			return false
		}
	}
	_, ok := b.Instrs[len(b.Instrs)-1].(*ssa.Jump)
	return ok
}

// ---- driver ----

// XSample is one completed path's inputs and expected observations, used to cross-validate
// the symbolic encoding against a native run of the same harness (translator validation).
type XSample struct {
	Harness  string            `json:"harness"`
	Model    map[string]string `json:"model"`
	Schedule []int             `json:"schedule,omitempty"`
	Expect   map[string]string `json:"expect"` // witness name -> value under the model
}

type HarnessResult struct {
	Stats      *HarnessStats
	Violations []*Violation
}

// RunHarness explores all paths of fn.
func (in *Interp) RunHarness(fn *ssa.Function, deadline time.Time) {
	in.harness = fn.Name()
	in.stats = &HarnessStats{Name: fn.Name()}
	t0 := time.Now()
	q0, s0 := in.solver.Queries, in.solver.TimeS
	var prefix []*decision
	for {
		p := &Path{pcSet: map[*Term]bool{}, dec: prefix, nondets: map[string]*Term{}, ghost: map[string]Value{}}
		p.image = ArrVar("image0")
		in.path = p
		farFacts = nil
		varRanges = nil
		in.runPath(fn)
		in.stats.Paths++
		in.stats.Steps += int64(p.steps)
		if len(p.pc) > 0 || len(p.dec) > 0 {
			// a distinct non-trivial case: a path whose condition mentions symbolic inputs or
			// that was selected by explicit choices (schedules, verifChoice)
			h := fnv.New64a()
			fmt.Fprintf(h, "%s|", fn.Name())
			for _, c := range p.pc {
				fmt.Fprintf(h, "%d,", c.id)
			}
			for _, d := range p.dec {
				fmt.Fprintf(h, "/%d", d.choice)
			}
			in.pathHashes[h.Sum64()] = true
		}
		if len(p.dec) > in.stats.MaxDepth {
			in.stats.MaxDepth = len(p.dec)
		}
		if p.threads != nil {
			in.stats.States += p.threads.steps + 1
			in.stats.Transitions += p.threads.steps
		}
		if in.stats.Sample == "" {
			in.stats.Sample = p.describe()
			in.stats.NondetNames = append([]string(nil), p.nondetOrd...)
		}
		// undo writes
		for i := len(p.undo) - 1; i >= 0; i-- {
			u := p.undo[i]
			if u.fn != nil {
				u.fn()
			} else {
				*u.p = u.old
			}
		}
		// backtrack
		dec := p.dec
		for len(dec) > 0 {
			d := dec[len(dec)-1]
			if len(d.todo) > 0 {
				nd := &decision{n: d.n, choice: d.todo[0], todo: d.todo[1:]}
				dec = append(dec[:len(dec)-1:len(dec)-1], nd)
				break
			}
			dec = dec[:len(dec)-1]
		}
		if len(dec) == 0 {
			break
		}
		prefix = dec
		if time.Now().After(deadline) {
			in.stats.Aborted++
			in.stats.AbortReasons = appendUniq(in.stats.AbortReasons, "time budget exhausted before all paths were explored")
			break
		}
	}
	in.stats.WallS = time.Since(t0).Seconds()
	in.stats.Queries = in.solver.Queries - q0
	in.stats.SolverS = in.solver.TimeS - s0
	ids := make([]string, 0, len(in.assertIDs))
	for k := range in.assertIDs {
		ids = append(ids, k)
	}
	sort.Strings(ids)
	in.stats.AssertIDs = ids
}

func appendUniq(l []string, s string) []string {
	for _, x := range l {
		if x == s {
			return l
		}
	}
	if len(l) < 20 {
		l = append(l, s)
	}
	return l
}

func (p *Path) describe() string {
	var sb strings.Builder
	fmt.Fprintf(&sb, "nondets=%v; decisions=%d; pc:", p.nondetOrd, len(p.dec))
	for i, c := range p.pc {
		if i >= 6 {
			sb.WriteString(" …")
			break
		}
		s := c.String()
		if len(s) > 160 {
			s = s[:160] + "…"
		}
		sb.WriteString(" " + s)
	}
	return sb.String()
}

func (in *Interp) runPath(fn *ssa.Function) {
	defer func() {
		r := recover()
		if in.path.threads != nil {
			in.path.threads.killAll()
		}
		switch x := r.(type) {
		case nil:
			in.takeSample()
		case pathEnd:
		case pathAbort:
			in.stats.Aborted++
			in.stats.AbortReasons = appendUniq(in.stats.AbortReasons, x.reason)
		case *goPanic:
			in.stats.Panics++
			in.onUncaughtPanic(x)
		default:
			in.stats.Aborted++
			st := string(debug.Stack())
			if len(st) > 3000 {
				st = st[:3000]
			}
			in.stats.AbortReasons = appendUniq(in.stats.AbortReasons, fmt.Sprintf("engine error: %v", r))
			if os.Getenv("SYMGO_DEBUG") != "" {
				fmt.Fprintf(os.Stderr, "engine error: %v\n%s\n", r, st)
			}
		}
	}()
	in.callSSA(nil, fn, nil, nil)
}

// onUncaughtPanic: a Go panic escaped the harness. The harness decides what panics mean
// by recovering them itself; an escaped panic is a violation "no-panic" of the harness.
func (in *Interp) onUncaughtPanic(gp *goPanic) {
	id := in.harness + ".no-uncaught-panic"
	in.assertIDs[id] = true
	in.stats.Asserts++
	in.reportViolation(id, "", gp.site, "panic", gp.String(), nil)
}

func (in *Interp) reportViolation(id, class, site, kind, note string, extra *Term) {
	if kind != "assert" {
		// panics / races / deadlocks reached through over-approximated branch decisions
		// only count if the path condition is satisfiable
		if r, _ := in.solver.Check(in.path.pc, nil, nil); r == Unsat {
			in.stats.Infeasible++
			return
		}
	}
	in.stats.Violated++
	in.path.failedHere = true
	key := id + "|" + class
	if in.seenViol[key] {
		return
	}
	in.seenViol[key] = true
	p := in.path
	v := &Violation{AssertID: id, Class: class, Harness: in.harness, Site: site, Model: map[string]string{}, Status: "not-replayed", Kind: kind, Note: note}
	// model
	var ts []*Term
	var names []string
	for _, n := range p.nondetOrd {
		ts = append(ts, p.nondets[n])
		names = append(names, n)
	}
	for _, w := range p.witnesses {
		ts = append(ts, w.t)
		names = append(names, w.name)
	}
	// base-image bytes at every address the query reads
	idxs := collectSelectIdx(append(append([]*Term{}, p.pc...), extra))
	nNames := len(names)
	base := ArrVar("image0")
	for _, ix := range idxs {
		ts = append(ts, ix, Select(base, ix))
	}
	r, vals := in.solver.Check(p.pc, extra, ts)
	if r == Sat {
		for i, n := range names {
			v.Model[n] = fmt.Sprintf("0x%x", vals[i])
		}
		for k := nNames; k+1 < len(vals); k += 2 {
			v.Model[fmt.Sprintf("img:0x%x", vals[k])] = fmt.Sprintf("0x%x", vals[k+1])
		}
	}
	if p.threads != nil {
		v.Schedule = append([]int(nil), p.threads.schedule...)
	}
	for _, d := range p.dec[:p.dpos] {
		_ = d
	}
	in.violations = append(in.violations, v)
}

// collectSelectIdx returns the distinct index terms of all array reads below ts.
func collectSelectIdx(ts []*Term) []*Term {
	seen := map[*Term]bool{}
	idx := map[*Term]bool{}
	var out []*Term
	var walk func(t *Term)
	walk = func(t *Term) {
		if t == nil || seen[t] {
			return
		}
		seen[t] = true
		if t.op == OpSelect && !idx[t.args[1]] && len(out) < 2048 {
			idx[t.args[1]] = true
			out = append(out, t.args[1])
		}
		for _, a := range t.args {
			walk(a)
		}
	}
	for _, t := range ts {
		walk(t)
	}
	return out
}

// takeSample records a model of the finished path for native cross-validation.
func (in *Interp) takeSample() {
	if in.xWanted <= 0 || in.xPerHarness[in.harness] >= in.xWanted {
		return
	}
	p := in.path
	if p.failedHere {
		return
	}
	// spread samples over the exploration: take paths 0, 1, then every 7th
	n := in.stats.Paths
	if n > 1 && n%7 != 0 {
		return
	}
	var ts []*Term
	var names []string
	for _, nm := range p.nondetOrd {
		ts = append(ts, p.nondets[nm])
		names = append(names, nm)
	}
	nN := len(ts)
	for _, w := range p.witnesses {
		ts = append(ts, w.t)
	}
	idxs := collectSelectIdx(append([]*Term{}, p.pc...))
	base := ArrVar("image0")
	nW := len(ts)
	for _, ix := range idxs {
		ts = append(ts, ix, Select(base, ix))
	}
	r, vals := in.solver.Check(p.pc, nil, ts)
	if r != Sat {
		return
	}
	s := &XSample{Harness: in.harness, Model: map[string]string{}, Expect: map[string]string{}}
	for i, nm := range names {
		s.Model[nm] = fmt.Sprintf("0x%x", vals[i])
	}
	for i, w := range p.witnesses {
		if strings.HasSuffix(w.name, ".addr") || strings.HasSuffix(w.name, ".code") {
			continue
		}
		s.Expect[w.name] = fmt.Sprintf("0x%x", vals[nN+i])
	}
	for k := nW; k+1 < len(vals); k += 2 {
		s.Model[fmt.Sprintf("img:0x%x", vals[k])] = fmt.Sprintf("0x%x", vals[k+1])
	}
	if p.threads != nil {
		s.Schedule = append([]int(nil), p.threads.schedule...)
	} else if p.lastSchedule != nil {
		s.Schedule = p.lastSchedule
	}
	in.xPerHarness[in.harness]++
	in.xsamples = append(in.xsamples, s)
}
