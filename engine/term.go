package main

// Hash-consed term DAG over bit-vectors (width 1..64), booleans and byte arrays
// (BV64 -> BV8). Constructors fold constants and apply cheap local simplifications so
// that table walks over concrete data never reach the solver.

import (
	"fmt"
	"math/bits"
	"strconv"
	"strings"
)

type Op uint8

const (
	OpConst Op = iota // bv constant (val)
	OpVar             // bv variable (name)
	OpAdd
	OpSub
	OpMul
	OpUDiv
	OpURem
	OpSDiv
	OpSRem
	OpAnd
	OpOr
	OpXor
	OpNot
	OpNeg
	OpShl
	OpLShr
	OpAShr
	OpConcat
	OpExtract // val = hi<<8|lo
	OpZExt
	OpSExt
	OpIte // args: bool, bv, bv
	// booleans (w == 0)
	OpBConst // val 0/1
	OpBVar
	OpEq
	OpUlt
	OpUle
	OpSlt
	OpSle
	OpBNot
	OpBAnd
	OpBOr
	OpBIte
	OpBEq
	// arrays (w == -1): (Array (_ BitVec 64) (_ BitVec 8))
	OpAVar
	OpStore
	OpSelect // result bv8
	OpAIte
)

type Term struct {
	op   Op
	w    int // bit width; 0 bool; -1 array
	args []*Term
	val  uint64
	name string
	id   int
}

var (
	termTab   = map[string]*Term{}
	termCount int
	// TrueT / FalseT
	TrueT  *Term
	FalseT *Term
)

func init() {
	TrueT = mk(OpBConst, 0, 1, "")
	FalseT = mk(OpBConst, 0, 0, "")
}

func mk(op Op, w int, val uint64, name string, args ...*Term) *Term {
	var sb strings.Builder
	sb.WriteByte(byte(op))
	sb.WriteByte(byte(w + 1))
	sb.WriteString(strconv.FormatUint(val, 16))
	sb.WriteByte('|')
	sb.WriteString(name)
	for _, a := range args {
		sb.WriteByte(',')
		sb.WriteString(strconv.Itoa(a.id))
	}
	k := sb.String()
	if t, ok := termTab[k]; ok {
		return t
	}
	termCount++
	t := &Term{op: op, w: w, val: val, name: name, id: termCount}
	if len(args) > 0 {
		t.args = append([]*Term(nil), args...)
	}
	termTab[k] = t
	return t
}

func mask(w int) uint64 {
	if w >= 64 {
		return ^uint64(0)
	}
	return (uint64(1) << uint(w)) - 1
}

func (t *Term) IsConst() bool { return t.op == OpConst || t.op == OpBConst }
func (t *Term) IsBool() bool  { return t.w == 0 }
func (t *Term) IsArr() bool   { return t.w == -1 }

// Const returns the constant value (zero-extended) and whether t is constant.
func (t *Term) Const() (uint64, bool) {
	if t.op == OpConst || t.op == OpBConst {
		return t.val, true
	}
	return 0, false
}

// SConst returns the constant as signed value.
func (t *Term) SConst() (int64, bool) {
	if t.op == OpConst {
		return sext64(t.val, t.w), true
	}
	return 0, false
}

func sext64(v uint64, w int) int64 {
	if w >= 64 {
		return int64(v)
	}
	sh := uint(64 - w)
	return int64(v<<sh) >> sh
}

func BV(w int, v uint64) *Term {
	if w <= 0 || w > 64 {
		panic(fmt.Sprintf("BV: bad width %d", w))
	}
	return mk(OpConst, w, v&mask(w), "")
}
func Bool(b bool) *Term {
	if b {
		return TrueT
	}
	return FalseT
}
func Var(w int, name string) *Term  { return mk(OpVar, w, 0, name) }
func BoolVar(name string) *Term     { return mk(OpBVar, 0, 0, name) }
func ArrVar(name string) *Term      { return mk(OpAVar, -1, 0, name) }
func isZero(t *Term) bool           { return t.op == OpConst && t.val == 0 }
func isOnes(t *Term) bool           { return t.op == OpConst && t.val == mask(t.w) }
func both(a, b *Term) bool          { return a.op == OpConst && b.op == OpConst }
func chk(a, b *Term, what string) {
	if a.w != b.w {
		panic(fmt.Sprintf("%s: width mismatch %d vs %d", what, a.w, b.w))
	}
}

func Add(a, b *Term) *Term {
	chk(a, b, "add")
	if both(a, b) {
		return BV(a.w, a.val+b.val)
	}
	if isZero(a) {
		return b
	}
	if isZero(b) {
		return a
	}
	if a.op == OpConst { // canonical: const on the right
		a, b = b, a
	}
	// (x + c1) + c2
	if b.op == OpConst && a.op == OpAdd && a.args[1].op == OpConst {
		return Add(a.args[0], BV(a.w, a.args[1].val+b.val))
	}
	if b.op == OpConst && a.op == OpSub && a.args[1].op == OpConst {
		return Add(a.args[0], BV(a.w, b.val-a.args[1].val))
	}
	return mk(OpAdd, a.w, 0, "", a, b)
}
func Sub(a, b *Term) *Term {
	chk(a, b, "sub")
	if both(a, b) {
		return BV(a.w, a.val-b.val)
	}
	if isZero(b) {
		return a
	}
	if a == b {
		return BV(a.w, 0)
	}
	if b.op == OpConst {
		return Add(a, BV(a.w, -b.val))
	}
	// (x + c) - x
	if a.op == OpAdd && a.args[0] == b {
		return a.args[1]
	}
	return mk(OpSub, a.w, 0, "", a, b)
}
func Mul(a, b *Term) *Term {
	chk(a, b, "mul")
	if both(a, b) {
		return BV(a.w, a.val*b.val)
	}
	if isZero(a) || isZero(b) {
		return BV(a.w, 0)
	}
	if a.op == OpConst && a.val == 1 {
		return b
	}
	if b.op == OpConst && b.val == 1 {
		return a
	}
	return mk(OpMul, a.w, 0, "", a, b)
}

// UDiv etc: callers guard division by zero (Go panics); the SMT-LIB total semantics is
// used for the constant case only when the divisor is non-zero.
func UDiv(a, b *Term) *Term {
	chk(a, b, "udiv")
	if both(a, b) && b.val != 0 {
		return BV(a.w, a.val/b.val)
	}
	return mk(OpUDiv, a.w, 0, "", a, b)
}
func URem(a, b *Term) *Term {
	chk(a, b, "urem")
	if both(a, b) && b.val != 0 {
		return BV(a.w, a.val%b.val)
	}
	return mk(OpURem, a.w, 0, "", a, b)
}
func SDiv(a, b *Term) *Term {
	chk(a, b, "sdiv")
	if both(a, b) && b.val != 0 {
		x, y := sext64(a.val, a.w), sext64(b.val, b.w)
		if y == -1 {
			return BV(a.w, uint64(-x))
		}
		return BV(a.w, uint64(x/y))
	}
	return mk(OpSDiv, a.w, 0, "", a, b)
}
func SRem(a, b *Term) *Term {
	chk(a, b, "srem")
	if both(a, b) && b.val != 0 {
		x, y := sext64(a.val, a.w), sext64(b.val, b.w)
		if y == -1 {
			return BV(a.w, 0)
		}
		return BV(a.w, uint64(x%y))
	}
	return mk(OpSRem, a.w, 0, "", a, b)
}
func And(a, b *Term) *Term {
	chk(a, b, "and")
	if both(a, b) {
		return BV(a.w, a.val&b.val)
	}
	if isZero(a) || isZero(b) {
		return BV(a.w, 0)
	}
	if isOnes(a) {
		return b
	}
	if isOnes(b) {
		return a
	}
	if a == b {
		return a
	}
	if a.op == OpConst {
		a, b = b, a
	}
	// zext(x) & c where c covers all of x's bits
	if b.op == OpConst && a.op == OpZExt && b.val&mask(a.args[0].w) == mask(a.args[0].w) {
		return a
	}
	return mk(OpAnd, a.w, 0, "", a, b)
}
func Or(a, b *Term) *Term {
	chk(a, b, "or")
	if both(a, b) {
		return BV(a.w, a.val|b.val)
	}
	if r := orSlices(a, b); r != nil {
		return r
	}
	if isZero(a) {
		return b
	}
	if isZero(b) {
		return a
	}
	if isOnes(a) || isOnes(b) {
		return BV(a.w, mask(a.w))
	}
	if a == b {
		return a
	}
	return mk(OpOr, a.w, 0, "", a, b)
}
func Xor(a, b *Term) *Term {
	chk(a, b, "xor")
	if both(a, b) {
		return BV(a.w, a.val^b.val)
	}
	if isZero(a) {
		return b
	}
	if isZero(b) {
		return a
	}
	if a == b {
		return BV(a.w, 0)
	}
	return mk(OpXor, a.w, 0, "", a, b)
}
func Not(a *Term) *Term {
	if a.op == OpConst {
		return BV(a.w, ^a.val)
	}
	if a.op == OpNot {
		return a.args[0]
	}
	return mk(OpNot, a.w, 0, "", a)
}
func Neg(a *Term) *Term {
	if a.op == OpConst {
		return BV(a.w, -a.val)
	}
	if a.op == OpNeg {
		return a.args[0]
	}
	return mk(OpNeg, a.w, 0, "", a)
}

// Shl/LShr/AShr follow SMT-LIB semantics (shift amount same width as operand, amounts
// >= width give 0 / sign fill), which coincide with Go for unsigned shift counts.
func Shl(a, b *Term) *Term {
	chk(a, b, "shl")
	if b.op == OpConst {
		if b.val >= uint64(a.w) {
			return BV(a.w, 0)
		}
		if b.val == 0 {
			return a
		}
		if a.op == OpConst {
			return BV(a.w, a.val<<b.val)
		}
	}
	if isZero(a) {
		return a
	}
	return mk(OpShl, a.w, 0, "", a, b)
}
func LShr(a, b *Term) *Term {
	chk(a, b, "lshr")
	if b.op == OpConst {
		if b.val >= uint64(a.w) {
			return BV(a.w, 0)
		}
		if b.val == 0 {
			return a
		}
		if a.op == OpConst {
			return BV(a.w, a.val>>b.val)
		}
		// lshr by a multiple of 8 of a zero-extended byte etc.
		if a.op == OpZExt && b.val >= uint64(a.args[0].w) {
			return BV(a.w, 0)
		}
	}
	if isZero(a) {
		return a
	}
	return mk(OpLShr, a.w, 0, "", a, b)
}
func AShr(a, b *Term) *Term {
	chk(a, b, "ashr")
	if b.op == OpConst {
		if b.val == 0 {
			return a
		}
		if a.op == OpConst {
			sh := b.val
			if sh >= uint64(a.w) {
				sh = uint64(a.w - 1)
			}
			return BV(a.w, uint64(sext64(a.val, a.w)>>sh))
		}
	}
	if isZero(a) {
		return a
	}
	return mk(OpAShr, a.w, 0, "", a, b)
}

// Extract bits hi..lo (inclusive).
func Extract(a *Term, hi, lo int) *Term {
	if hi < lo || hi >= a.w || lo < 0 {
		panic(fmt.Sprintf("extract [%d:%d] of width %d", hi, lo, a.w))
	}
	w := hi - lo + 1
	if w == a.w {
		return a
	}
	if a.op == OpConst {
		return BV(w, a.val>>uint(lo))
	}
	switch a.op {
	case OpZExt, OpSExt:
		iw := a.args[0].w
		if hi < iw {
			return Extract(a.args[0], hi, lo)
		}
		if a.op == OpZExt && lo >= iw {
			return BV(w, 0)
		}
	case OpConcat:
		lw := a.args[1].w
		if hi < lw {
			return Extract(a.args[1], hi, lo)
		}
		if lo >= lw {
			return Extract(a.args[0], hi-lw, lo-lw)
		}
	case OpExtract:
		ilo := int(a.val & 0xff)
		return Extract(a.args[0], hi+ilo, lo+ilo)
	case OpAnd, OpOr, OpXor:
		if lo == 0 || true {
			x, y := Extract(a.args[0], hi, lo), Extract(a.args[1], hi, lo)
			switch a.op {
			case OpAnd:
				return And(x, y)
			case OpOr:
				return Or(x, y)
			default:
				return Xor(x, y)
			}
		}
	case OpAdd, OpSub, OpMul:
		if lo == 0 {
			x, y := Extract(a.args[0], hi, 0), Extract(a.args[1], hi, 0)
			switch a.op {
			case OpAdd:
				return Add(x, y)
			case OpSub:
				return Sub(x, y)
			default:
				return Mul(x, y)
			}
		}
	case OpShl:
		if c, ok := a.args[1].Const(); ok {
			// (x << c)[hi:lo]
			if lo >= int(c) {
				return Extract(a.args[0], hi-int(c), lo-int(c))
			}
			if hi < int(c) {
				return BV(w, 0)
			}
		}
	case OpLShr:
		if c, ok := a.args[1].Const(); ok {
			if hi+int(c) < a.w {
				return Extract(a.args[0], hi+int(c), lo+int(c))
			}
		}
	case OpIte:
		if a.args[1].IsConst() || a.args[2].IsConst() {
			return Ite(a.args[0], Extract(a.args[1], hi, lo), Extract(a.args[2], hi, lo))
		}
	}
	return mk(OpExtract, w, uint64(hi)<<8|uint64(lo), "", a)
}
func Concat(hi, lo *Term) *Term {
	w := hi.w + lo.w
	if w > 64 {
		panic("concat too wide")
	}
	if both(hi, lo) {
		return BV(w, hi.val<<uint(lo.w)|lo.val)
	}
	if isZero(hi) {
		return ZExt(lo, w)
	}
	// concat(extract(x,h,m+1), extract(x,m,l)) = extract(x,h,l)
	if hi.op == OpExtract && lo.op == OpExtract && hi.args[0] == lo.args[0] {
		hlo := int(hi.val & 0xff)
		lhi := int(lo.val >> 8)
		if hlo == lhi+1 {
			return Extract(hi.args[0], int(hi.val>>8), int(lo.val&0xff))
		}
	}
	return mk(OpConcat, w, 0, "", hi, lo)
}
func ZExt(a *Term, w int) *Term {
	if w == a.w {
		return a
	}
	if w < a.w {
		panic("zext narrower")
	}
	if a.op == OpConst {
		return BV(w, a.val)
	}
	if a.op == OpZExt {
		return ZExt(a.args[0], w)
	}
	return mk(OpZExt, w, 0, "", a)
}
func SExt(a *Term, w int) *Term {
	if w == a.w {
		return a
	}
	if w < a.w {
		panic("sext narrower")
	}
	if a.op == OpConst {
		return BV(w, uint64(sext64(a.val, a.w)))
	}
	if a.op == OpSExt {
		return SExt(a.args[0], w)
	}
	if a.op == OpZExt { // sign bit is 0
		return ZExt(a.args[0], w)
	}
	return mk(OpSExt, w, 0, "", a)
}

// Resize converts a to width w: truncation, or zero/sign extension.
func Resize(a *Term, w int, signed bool) *Term {
	if w == a.w {
		return a
	}
	if w < a.w {
		return Extract(a, w-1, 0)
	}
	if signed {
		return SExt(a, w)
	}
	return ZExt(a, w)
}

func Ite(c, a, b *Term) *Term {
	if a.w == 0 {
		return BIte(c, a, b)
	}
	if a.w == -1 {
		if c == TrueT {
			return a
		}
		if c == FalseT || a == b {
			return b
		}
		return mk(OpAIte, -1, 0, "", c, a, b)
	}
	chk(a, b, "ite")
	if c == TrueT {
		return a
	}
	if c == FalseT {
		return b
	}
	if a == b {
		return a
	}
	if c.op == OpBNot {
		return Ite(c.args[0], b, a)
	}
	return mk(OpIte, a.w, 0, "", c, a, b)
}

// ---- booleans ----

func Eq(a, b *Term) *Term {
	if a.w == 0 {
		return BEq(a, b)
	}
	chk(a, b, "eq")
	if a == b {
		return TrueT
	}
	if both(a, b) {
		return Bool(a.val == b.val)
	}
	if (a.op == OpZExt && b.op == OpZExt || a.op == OpSExt && b.op == OpSExt) && a.args[0].w == b.args[0].w {
		return Eq(a.args[0], b.args[0])
	}
	// base + constant offset on both sides
	if ba, oa := splitBase(a); true {
		bb, ob := splitBase(b)
		if ba == bb && ba != nil {
			return Bool(oa == ob)
		}
		if ba != nil && bb != nil && farFacts != nil {
			if n, ok := farFacts[[2]*Term{ba, bb}]; ok && oa < n && ob < n {
				return FalseT
			}
		}
		if ba != nil && bb != nil && ba != bb && varRanges != nil {
			ra, okA := varRanges[ba]
			rb, okB := varRanges[bb]
			// both bases confined (by the current path condition) to disjoint windows; offsets
			// small enough not to wrap
			if okA && okB && oa < 1<<32 && ob < 1<<32 && ra[1] < 1<<62 && rb[1] < 1<<62 {
				if ra[1]+oa <= rb[0]+ob || rb[1]+ob <= ra[0]+oa {
					return FalseT
				}
			}
		}
	}
	if a.op == OpConst {
		a, b = b, a
	}
	if b.op == OpConst {
		switch a.op {
		case OpZExt:
			iw := a.args[0].w
			if b.val>>uint(iw) != 0 {
				return FalseT
			}
			return Eq(a.args[0], BV(iw, b.val))
		case OpIte:
			if a.args[1].IsConst() && a.args[2].IsConst() {
				return BIte(a.args[0], Eq(a.args[1], b), Eq(a.args[2], b))
			}
		case OpAdd:
			if a.args[1].op == OpConst {
				return Eq(a.args[0], BV(a.w, b.val-a.args[1].val))
			}
		case OpConcat:
			lw := a.args[1].w
			return BAnd(Eq(a.args[0], BV(a.args[0].w, b.val>>uint(lw))), Eq(a.args[1], BV(lw, b.val)))
		}
	}
	if a.id > b.id && b.op != OpConst {
		a, b = b, a
	}
	return mk(OpEq, 0, 0, "", a, b)
}
// farFacts: pairs of base terms assumed (in the current path condition) to be at least n
// bytes apart, without wrap-around; lets address comparisons of two regions fold.
var farFacts map[[2]*Term]uint64

// varRanges: [lo, hi) windows that the current path condition imposes on 64-bit variables
// (learnt from conjuncts x >= c, x < c); lets comparisons of addresses in different
// regions (text, heap, mmap) fold.
var varRanges map[*Term][2]uint64

func noteRange(c *Term) {
	neg := false
	if c.op == OpBNot {
		neg = true
		c = c.args[0]
	}
	if c.op != OpUlt && c.op != OpUle {
		return
	}
	a, b := c.args[0], c.args[1]
	set := func(v *Term, lo, hi uint64, isLo bool) {
		if v.op != OpVar || v.w != 64 {
			return
		}
		if varRanges == nil {
			varRanges = map[*Term][2]uint64{}
		}
		r, ok := varRanges[v]
		if !ok {
			r = [2]uint64{0, ^uint64(0)}
		}
		if isLo && lo > r[0] {
			r[0] = lo
		}
		if !isLo && hi < r[1] {
			r[1] = hi
		}
		varRanges[v] = r
	}
	switch {
	case c.op == OpUlt && !neg && b.op == OpConst: // a < k
		set(a, 0, b.val, false)
	case c.op == OpUlt && neg && b.op == OpConst: // a >= k
		set(a, b.val, 0, true)
	case c.op == OpUle && !neg && a.op == OpConst: // k <= b
		set(b, a.val, 0, true)
	case c.op == OpUle && neg && a.op == OpConst: // b < k
		set(b, 0, a.val, false)
	case c.op == OpUlt && !neg && a.op == OpConst: // k < b
		set(b, a.val+1, 0, true)
	case c.op == OpUle && !neg && b.op == OpConst: // a <= k
		if b.val != ^uint64(0) {
			set(a, 0, b.val+1, false)
		}
	}
}

func Ne(a, b *Term) *Term { return BNot(Eq(a, b)) }

// splitBase views t as base+offset (base nil for constants).
func splitBase(t *Term) (*Term, uint64) {
	if t.op == OpAdd && t.args[1].op == OpConst {
		return t.args[0], t.args[1].val
	}
	if t.op == OpConst {
		return nil, t.val
	}
	return t, 0
}
func Ult(a, b *Term) *Term {
	chk(a, b, "ult")
	if a == b {
		return FalseT
	}
	if both(a, b) {
		return Bool(a.val < b.val)
	}
	if isZero(b) {
		return FalseT
	}
	if a.op == OpZExt && b.op == OpConst && b.val > mask(a.args[0].w) {
		return TrueT
	}
	if a.op == OpZExt && b.op == OpConst {
		return Ult(a.args[0], BV(a.args[0].w, b.val))
	}
	return mk(OpUlt, 0, 0, "", a, b)
}
func Ule(a, b *Term) *Term {
	chk(a, b, "ule")
	if a == b {
		return TrueT
	}
	if both(a, b) {
		return Bool(a.val <= b.val)
	}
	if isZero(a) {
		return TrueT
	}
	if a.op == OpZExt && b.op == OpConst && b.val >= mask(a.args[0].w) {
		return TrueT
	}
	return mk(OpUle, 0, 0, "", a, b)
}
func Ugt(a, b *Term) *Term { return Ult(b, a) }
func Uge(a, b *Term) *Term { return Ule(b, a) }
func Slt(a, b *Term) *Term {
	chk(a, b, "slt")
	if a == b {
		return FalseT
	}
	if both(a, b) {
		return Bool(sext64(a.val, a.w) < sext64(b.val, b.w))
	}
	if a.op == OpZExt && b.op == OpConst {
		// a is non-negative and < 2^iw
		bv := sext64(b.val, b.w)
		if bv <= 0 {
			return FalseT
		}
		if uint64(bv) > mask(a.args[0].w) {
			return TrueT
		}
		return Ult(a.args[0], BV(a.args[0].w, uint64(bv)))
	}
	if b.op == OpZExt && a.op == OpConst {
		av := sext64(a.val, a.w)
		if av < 0 {
			return TrueT
		}
		if uint64(av) >= mask(b.args[0].w) {
			return FalseT
		}
		return Ult(BV(b.args[0].w, uint64(av)), b.args[0])
	}
	return mk(OpSlt, 0, 0, "", a, b)
}
func Sle(a, b *Term) *Term {
	chk(a, b, "sle")
	if a == b {
		return TrueT
	}
	if both(a, b) {
		return Bool(sext64(a.val, a.w) <= sext64(b.val, b.w))
	}
	if (a.op == OpZExt && b.op == OpConst) || (b.op == OpZExt && a.op == OpConst) {
		return BNot(Slt(b, a))
	}
	return mk(OpSle, 0, 0, "", a, b)
}
func Sgt(a, b *Term) *Term { return Slt(b, a) }
func Sge(a, b *Term) *Term { return Sle(b, a) }

func BNot(a *Term) *Term {
	if a == TrueT {
		return FalseT
	}
	if a == FalseT {
		return TrueT
	}
	if a.op == OpBNot {
		return a.args[0]
	}
	return mk(OpBNot, 0, 0, "", a)
}
func BAnd(a, b *Term) *Term {
	if a == FalseT || b == FalseT {
		return FalseT
	}
	if a == TrueT {
		return b
	}
	if b == TrueT {
		return a
	}
	if a == b {
		return a
	}
	if BNot(a) == b {
		return FalseT
	}
	return mk(OpBAnd, 0, 0, "", a, b)
}
func BOr(a, b *Term) *Term {
	if a == TrueT || b == TrueT {
		return TrueT
	}
	if a == FalseT {
		return b
	}
	if b == FalseT {
		return a
	}
	if a == b {
		return a
	}
	if BNot(a) == b {
		return TrueT
	}
	return mk(OpBOr, 0, 0, "", a, b)
}
func BIte(c, a, b *Term) *Term {
	if c == TrueT {
		return a
	}
	if c == FalseT {
		return b
	}
	if a == b {
		return a
	}
	if a == TrueT && b == FalseT {
		return c
	}
	if a == FalseT && b == TrueT {
		return BNot(c)
	}
	if a == TrueT {
		return BOr(c, b)
	}
	if b == FalseT {
		return BAnd(c, a)
	}
	if a == FalseT {
		return BAnd(BNot(c), b)
	}
	if b == TrueT {
		return BOr(BNot(c), a)
	}
	return mk(OpBIte, 0, 0, "", c, a, b)
}
func BEq(a, b *Term) *Term {
	if a == b {
		return TrueT
	}
	if a == TrueT {
		return b
	}
	if b == TrueT {
		return a
	}
	if a == FalseT {
		return BNot(b)
	}
	if b == FalseT {
		return BNot(a)
	}
	return mk(OpBEq, 0, 0, "", a, b)
}
func BImp(a, b *Term) *Term { return BOr(BNot(a), b) }

// BoolToBV converts a boolean to a 1/0 bit-vector of width w.
func BoolToBV(b *Term, w int) *Term { return Ite(b, BV(w, 1), BV(w, 0)) }

// ---- arrays ----

func Select(a, i *Term) *Term {
	if i.w != 64 {
		panic("select index width")
	}
	// read-over-write with decidable index comparison
	for cur := a; cur.op == OpStore; cur = cur.args[0] {
		e := Eq(cur.args[1], i)
		if e == TrueT {
			return cur.args[2]
		}
		if e != FalseT {
			// cannot skip syntactically
			return mk(OpSelect, 8, 0, "", cur, i)
		}
		a = cur.args[0]
	}
	return mk(OpSelect, 8, 0, "", a, i)
}
func Store(a, i, v *Term) *Term {
	if i.w != 64 || v.w != 8 {
		panic("store widths")
	}
	// drop an older store to the same address when every store above it is provably at a
	// different address (keeps chains as short as the number of distinct addresses)
	var above []*Term
	for cur := a; cur.op == OpStore; cur = cur.args[0] {
		e := Eq(cur.args[1], i)
		if e == TrueT {
			base := cur.args[0]
			for k := len(above) - 1; k >= 0; k-- {
				base = mk(OpStore, -1, 0, "", base, above[k].args[1], above[k].args[2])
			}
			return mk(OpStore, -1, 0, "", base, i, v)
		}
		if e != FalseT || len(above) > 256 {
			break
		}
		above = append(above, cur)
	}
	return mk(OpStore, -1, 0, "", a, i, v)
}

// ---- misc ----

func popcount(x uint64) int { return bits.OnesCount64(x) }

func (t *Term) String() string {
	if t == nil {
		return "<nil>"
	}
	switch t.op {
	case OpConst:
		return fmt.Sprintf("0x%x:%d", t.val, t.w)
	case OpBConst:
		if t.val == 1 {
			return "true"
		}
		return "false"
	case OpVar, OpBVar, OpAVar:
		return t.name
	}
	var sb strings.Builder
	sb.WriteString("(")
	sb.WriteString(opNames[t.op])
	if t.op == OpExtract {
		fmt.Fprintf(&sb, "[%d:%d]", t.val>>8, t.val&0xff)
	}
	if t.op == OpZExt || t.op == OpSExt {
		fmt.Fprintf(&sb, "%d", t.w)
	}
	for _, a := range t.args {
		sb.WriteByte(' ')
		s := a.String()
		if len(s) > 200 {
			s = s[:200] + "…"
		}
		sb.WriteString(s)
	}
	sb.WriteString(")")
	return sb.String()
}

var opNames = map[Op]string{
	OpAdd: "bvadd", OpSub: "bvsub", OpMul: "bvmul", OpUDiv: "bvudiv", OpURem: "bvurem", OpSDiv: "bvsdiv",
	OpSRem: "bvsrem", OpAnd: "bvand", OpOr: "bvor", OpXor: "bvxor", OpNot: "bvnot", OpNeg: "bvneg",
	OpShl: "bvshl", OpLShr: "bvlshr", OpAShr: "bvashr", OpConcat: "concat", OpExtract: "extract",
	OpZExt: "zext", OpSExt: "sext", OpIte: "ite", OpEq: "=", OpUlt: "bvult", OpUle: "bvule",
	OpSlt: "bvslt", OpSle: "bvsle", OpBNot: "not", OpBAnd: "and", OpBOr: "or", OpBIte: "ite", OpBEq: "=",
	OpStore: "store", OpSelect: "select", OpAIte: "ite",
}

// EvalConcrete evaluates a term under an assignment of variables (used to validate
// models and to replay). Arrays are maps with a default.
type Assignment struct {
	BV   map[string]uint64
	Bool map[string]bool
}

// bit-slice view: t = (src[hi:lo] placed at bit position pos), zero elsewhere
type bslice struct {
	src     *Term
	hi, lo  int
	pos     int
}

func asSlices(t *Term) ([]bslice, bool) {
	switch t.op {
	case OpConst:
		if t.val == 0 {
			return nil, true
		}
		return nil, false
	case OpVar:
		return []bslice{{t, t.w - 1, 0, 0}}, true
	case OpExtract:
		in, ok := asSlices(t.args[0])
		if !ok {
			return nil, false
		}
		hi, lo := int(t.val>>8), int(t.val&0xff)
		var out []bslice
		for _, s := range in {
			// slice occupies [pos, pos+len)
			l := s.hi - s.lo + 1
			a, b := s.pos, s.pos+l-1
			if b < lo || a > hi {
				continue
			}
			na, nb := a, b
			if na < lo {
				na = lo
			}
			if nb > hi {
				nb = hi
			}
			out = append(out, bslice{s.src, s.lo + (nb - a), s.lo + (na - a), na - lo})
		}
		return out, true
	case OpZExt:
		return asSlices(t.args[0])
	case OpShl:
		c, ok := t.args[1].Const()
		if !ok {
			return nil, false
		}
		in, ok2 := asSlices(t.args[0])
		if !ok2 {
			return nil, false
		}
		var out []bslice
		for _, s := range in {
			l := s.hi - s.lo + 1
			np := s.pos + int(c)
			if np >= t.w {
				continue
			}
			if np+l > t.w {
				l = t.w - np
			}
			out = append(out, bslice{s.src, s.lo + l - 1, s.lo, np})
		}
		return out, true
	case OpConcat:
		h, ok1 := asSlices(t.args[0])
		l, ok2 := asSlices(t.args[1])
		if !ok1 || !ok2 {
			return nil, false
		}
		out := append([]bslice{}, l...)
		for _, s := range h {
			s.pos += t.args[1].w
			out = append(out, s)
		}
		return out, true
	case OpOr:
		a, ok1 := asSlices(t.args[0])
		b, ok2 := asSlices(t.args[1])
		if !ok1 || !ok2 {
			return nil, false
		}
		return append(append([]bslice{}, a...), b...), true
	}
	return nil, false
}

// orSlices: a|b where both are positioned slices of one source that tile a contiguous
// range: rebuild as a single extract / the source itself.
func orSlices(a, b *Term) *Term {
	if a.op != OpZExt && a.op != OpShl && a.op != OpOr && a.op != OpConcat {
		return nil
	}
	sa, ok1 := asSlices(a)
	sb, ok2 := asSlices(b)
	if !ok1 || !ok2 {
		return nil
	}
	all := append(append([]bslice{}, sa...), sb...)
	if len(all) < 2 {
		return nil
	}
	src := all[0].src
	for _, s := range all {
		if s.src != src {
			return nil
		}
	}
	// sort by pos
	for i := 1; i < len(all); i++ {
		for j := i; j > 0 && all[j].pos < all[j-1].pos; j-- {
			all[j], all[j-1] = all[j-1], all[j]
		}
	}
	// contiguous in both pos and source bits, starting at pos 0
	if all[0].pos != 0 {
		return nil
	}
	lo := all[0].lo
	next, nsrc := 0, lo
	for _, s := range all {
		if s.pos != next || s.lo != nsrc {
			return nil
		}
		l := s.hi - s.lo + 1
		next += l
		nsrc += l
	}
	if nsrc-1 >= src.w {
		return nil
	}
	return ZExt(Extract(src, nsrc-1, lo), a.w)
}
