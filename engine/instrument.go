package main

// Source instrumentation for schedule replays: a copy of a goom source file with a
// verifSched() call inserted before every statement that performs a sync/atomic
// operation. The copy is generated from /repo's current file on every replay and is
// supplied to `go test` through -overlay; /repo itself is never modified.

import (
	"bytes"
	"go/ast"
	"go/format"
	"go/parser"
	"go/token"
)

func containsAtomic(n ast.Node) bool {
	found := false
	ast.Inspect(n, func(x ast.Node) bool {
		if found {
			return false
		}
		switch c := x.(type) {
		case *ast.FuncLit:
			return false
		case *ast.BlockStmt:
			if x != n {
				return false
			}
		case *ast.CallExpr:
			if sel, ok := c.Fun.(*ast.SelectorExpr); ok {
				if id, ok := sel.X.(*ast.Ident); ok && id.Name == "atomic" {
					found = true
					return false
				}
			}
		}
		return true
	})
	return found
}

func schedCall() ast.Stmt {
	return &ast.ExprStmt{X: &ast.CallExpr{Fun: ast.NewIdent("verifSched")}}
}

func instrumentList(list []ast.Stmt) []ast.Stmt {
	var out []ast.Stmt
	for _, s := range list {
		switch st := s.(type) {
		case *ast.BlockStmt:
			st.List = instrumentList(st.List)
		case *ast.IfStmt:
			hdr := false
			if st.Init != nil && containsAtomic(st.Init) {
				hdr = true
			}
			if containsAtomic(st.Cond) {
				hdr = true
			}
			if hdr {
				out = append(out, schedCall())
			}
			instrumentIf(st)
			out = append(out, s)
			continue
		case *ast.ForStmt:
			st.Body.List = instrumentList(st.Body.List)
		case *ast.RangeStmt:
			st.Body.List = instrumentList(st.Body.List)
		case *ast.SwitchStmt:
			for _, c := range st.Body.List {
				cc := c.(*ast.CaseClause)
				cc.Body = instrumentList(cc.Body)
			}
		case *ast.TypeSwitchStmt:
			for _, c := range st.Body.List {
				cc := c.(*ast.CaseClause)
				cc.Body = instrumentList(cc.Body)
			}
		case *ast.LabeledStmt:
			// leave
		default:
			if containsAtomic(s) {
				out = append(out, schedCall())
			}
		}
		out = append(out, s)
	}
	return out
}

func instrumentIf(st *ast.IfStmt) {
	st.Body.List = instrumentList(st.Body.List)
	switch e := st.Else.(type) {
	case *ast.BlockStmt:
		e.List = instrumentList(e.List)
	case *ast.IfStmt:
		instrumentIf(e)
	}
}

// InstrumentAtomics returns the instrumented source of a Go file.
func InstrumentAtomics(src []byte) ([]byte, error) {
	fset := token.NewFileSet()
	f, err := parser.ParseFile(fset, "x.go", src, parser.ParseComments)
	if err != nil {
		return nil, err
	}
	for _, d := range f.Decls {
		fd, ok := d.(*ast.FuncDecl)
		if !ok || fd.Body == nil {
			continue
		}
		fd.Body.List = instrumentList(fd.Body.List)
	}
	var buf bytes.Buffer
	// drop comments' positions problems: print without comment map adjustments
	f.Comments = nil
	if err := format.Node(&buf, fset, f); err != nil {
		return nil, err
	}
	return buf.Bytes(), nil
}
