#!/bin/bash
# Runs the repository's baseline test suite (guard off) and compares with BASELINE.json's
# stable_pass list. Exit 0 iff every stable test passes.
REPO=${1:-/repo}
export GOFLAGS=-mod=mod GOPROXY=off GOSUMDB=off GOTOOLCHAIN=local
cd "$REPO" || exit 2
OUT=$(mktemp)
go test -mod=mod -json -vet=off -count=1 -timeout 25m ./... > "$OUT" 2>/dev/null
python3 - "$OUT" <<'PY'
import json,sys
passed=set()
for l in open(sys.argv[1]):
    try: e=json.loads(l)
    except: continue
    if e.get('Action')=='pass' and e.get('Test'):
        passed.add(e['Package']+'::'+e['Test'])
base=json.load(open('/root/.vp/BASELINE.json'))['stable_pass']
missing=[t for t in base if t not in passed]
print(f"baseline: {len(base)-len(missing)}/{len(base)} stable tests pass")
for m in missing: print("  MISSING", m)
sys.exit(1 if missing else 0)
PY
rc=$?
rm -f "$OUT"
exit $rc
