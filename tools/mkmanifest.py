#!/usr/bin/env python3
"""Writes /verif/MANIFEST.json from the table below (single source of truth)."""
import json, os
ENV = "GOFLAGS=-mod=mod GOPROXY=off GOSUMDB=off GOTOOLCHAIN=local"
CHECKS = {}
def chk(pid, category, text, note, technique, design):
    CHECKS[pid] = dict(category=category, text=text, note=note, technique=technique, design=design)

exec(open(os.path.join(os.path.dirname(__file__), "checks_table.py")).read())

ALL = ["C%02d" % i for i in range(1, 21)]
NA_REASON = json.load(open(os.path.join(os.path.dirname(__file__), "not_applicable.json")))
checks = []
for pid in ALL:
    if pid not in CHECKS:
        continue
    c = CHECKS[pid]
    checks.append({
        "property_id": pid,
        "quick_cmd": f"{ENV} bin/symgo check {pid} --tier quick",
        "thorough_cmd": f"{ENV} bin/symgo check {pid} --tier thorough",
        "evidence_file": f"/verif/evidence/{pid}.json",
        "replay_cmd_template": ENV + " bin/symgo replay {path}",
        "engine": "symgo",
        "level_claimed": {"category": c["category"], "text": c["text"], "design_ref": c["design"]},
        "level_note": c["note"],
        "technique": c["technique"],
    })
na = [{"property_id": p, "reason": NA_REASON.get(p, "no check registered yet: the symbolic harness for this property has not been built in this session (see DESIGN.md §4 for the plan)")}
      for p in ALL if p not in CHECKS]
m = {
    "version": 1,
    "setup_cmd": f"cd /verif/engine && {ENV} mkdir -p refx86 refarm64 && cp $(go env GOROOT)/src/cmd/vendor/golang.org/x/arch/x86/x86asm/*.go refx86/ && cp $(go env GOROOT)/src/cmd/vendor/golang.org/x/arch/arm64/arm64asm/*.go refarm64/ && {ENV} go build -o /verif/bin/symgo . && cd /verif && bin/symgo selfcheck",
    "hooks": {
        "guard": "verif",
        "enable": "none needed: harnesses, environment stubs and replays are injected with go/packages and `go test -overlay` overlays generated from /repo's current tree; no hook code lives in /repo",
        "baseline_off_cmd": "cd /repo && GOFLAGS=-mod=mod GOPROXY=off go test -mod=mod -json -vet=off -count=1 -timeout 25m ./...",
        "source_commits": [],
        "add_only": True,
    },
    "engines": [{"name": "symgo", "path": "/verif/engine", "serves_properties": [c["property_id"] for c in checks],
                 "kind_free_text": "own Go SSA (golang.org/x/tools/go/ssa) -> SMT-LIB2 bounded symbolic executor; z3 4.8.12 back end (cvc5 / z3 5.1 for cross-checks); counterexamples replayed natively with go test -overlay"}],
    "checks": checks,
    "not_applicable": na,
    "notes": "Every check rebuilds its encoding from /repo's working tree on each run. Exit 0 = held within the stated bounds (KNOWN-FINDING lines allowed); exit 1 + VIOLATION = natively reproduced counterexample; exit 3 = machinery problem (unsupported construct reached, solver unknown, encoding mismatch) — never reported as success.",
}
json.dump(m, open("/verif/MANIFEST.json", "w"), indent=1)
print("wrote MANIFEST.json with", len(checks), "checks,", len(na), "not applicable")
