#!/bin/bash
# verify_seed.sh <seed dir> <demo file> <dest rel path> <go test args...>
# Confirms in a fresh scratch worktree of /repo: the patch applies and builds, the 45
# baseline tests still pass with it, the demo fails with it and passes without it.
set -u
SD=$1; DEMO=$2; DEST=$3; shift 3
export GOFLAGS=-mod=mod GOPROXY=off GOSUMDB=off GOTOOLCHAIN=local
WT=$(mktemp -d /tmp/vseed.XXXXXX); rmdir $WT
git -C /repo worktree add -q --detach $WT HEAD || exit 2
cleanup() { git -C /repo worktree remove --force $WT; }
trap cleanup EXIT
cd $WT
mkdir -p $(dirname $DEST); cp $SD/$DEMO $DEST
# optional extra directory a demo needs: VSEED_EXTRA="<dir in seed dir>:<dest rel path>"
if [ -n "${VSEED_EXTRA:-}" ]; then mkdir -p $(dirname ${VSEED_EXTRA#*:}); cp -r $SD/${VSEED_EXTRA%%:*} ${VSEED_EXTRA#*:}; fi
go test -mod=mod -vet=off -count=1 "$@" > $SD/demo_unmodified.out 2>&1; rc0=$?
git apply $SD/patch.diff || { echo "patch does not apply"; exit 2; }
go build ./... || { echo "does not build"; exit 2; }
go test -mod=mod -vet=off -count=1 "$@" > $SD/demo_with_change.out 2>&1; rc1=$?
rm -f $DEST
if [ -n "${VSEED_EXTRA:-}" ]; then rm -rf ${VSEED_EXTRA#*:}; fi
/verif/tools/baseline.sh $WT > $SD/baseline_with_change.out 2>&1; rcb=$?
echo "demo unmodified rc=$rc0 (want 0); demo with change rc=$rc1 (want !=0); baseline rc=$rcb (want 0)"
tail -1 $SD/baseline_with_change.out
if [ $rc0 -eq 0 ] && [ $rc1 -ne 0 ] && [ $rcb -eq 0 ]; then echo CONFIRMED; exit 0; fi
echo NOT-CONFIRMED; exit 1
