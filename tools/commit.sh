#!/bin/bash
# Regenerates every evidence file on the clean /repo tree, then commits /verif.
set -e
cd /verif
if [ -n "$(git -C /repo status --porcelain)" ]; then echo "/repo is not clean"; exit 1; fi
python3 tools/mkmanifest.py
tools/run_all.sh quick | tee /tmp/run_all.out
if grep -q "rc=[13]" /tmp/run_all.out; then echo "a check does not pass on the clean tree"; exit 1; fi
git add -A; git commit -qm "$1"; echo committed
