#!/bin/bash
# Runs every registered check's quick (or $1) tier on the current /repo tree.
TIER=${1:-quick}
cd /verif
for id in $(python3 -c "import json;print(' '.join(c['property_id'] for c in json.load(open('MANIFEST.json'))['checks']))"); do
  out=$(GOFLAGS=-mod=mod GOPROXY=off GOSUMDB=off GOTOOLCHAIN=local bin/symgo check $id --tier $TIER 2>&1); rc=$?
  echo "$id rc=$rc $(echo "$out" | tail -1)"
  echo "$out" | grep -E "^(VIOLATION|KNOWN-FINDING|PROBLEM)" | head -5
done
