chk("C15", "proof",
    "Complete decision over all from/to/dx < 2^47: the real emitters (SSA of jmpToFunctionValue, jmpToOriginFunctionValue, relative, iface.jmpWithRdx; arm64/386 variants) are executed symbolically, their bytes are written into a symbolic process image and executed by an independent x86/arm64 micro-semantics; every assertion is PC∧¬φ unsat. The input domain is finite and loop-free, so unsat is a proof for the whole domain.",
    "trusted: go/ssa, symgo's translation of ~10 SSA instruction kinds, z3, the micro-semantics of the listed encodings (harness/C15/x86sem.go); addresses < 2^47; destination not inside the emitted bytes",
    "SSA->SMT symbolic execution + z3 (complete over the finite domain)", "§4 C15")
