chk("C15", "proof",
    "Complete decision over all from/to/dx < 2^47: the real emitters (SSA of jmpToFunctionValue, jmpToOriginFunctionValue, relative, iface.jmpWithRdx; arm64/386 variants) are executed symbolically, their bytes are written into a symbolic process image and executed by an independent x86/arm64 micro-semantics; every assertion is PC∧¬φ unsat. The input domain is finite and loop-free, so unsat is a proof for the whole domain.",
    "trusted: go/ssa, symgo's translation of ~10 SSA instruction kinds, z3, the micro-semantics of the listed encodings (harness/C15/x86sem.go); addresses < 2^47; destination not inside the emitted bytes",
    "SSA->SMT symbolic execution + z3 (complete over the finite domain)", "§4 C15")
chk("C20", "model_checking",
    "Bounded symbolic model checking of stub.acquireFromHolder/Acquire/Write: reserve state, request sizes, mmap outcomes and addresses are symbolic; every interleaving of the atomic operations of 2 and 3 concurrent requesters is enumerated (scheduler choices are decisions of the path exploration) and every assertion (inside reserve, pairwise disjoint, exhaustion reported, Write delivers) is decided by z3 on each path. Counterexample schedules are replayed natively through an AST-instrumented overlay copy of holder.go.",
    "trusted: go/ssa, symgo (incl. its thread scheduler and SC-atomics model), z3; mmap(2)/mprotect(2) contracts as stubs; negative sizes outside; 2-3 threads x 1 request",
    "SSA->SMT bounded symbolic execution with symbolic schedules + z3", "§4 C20")
